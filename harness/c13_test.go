package main

import (
	"bytes"
	"context"
	"errors"
	"fmt"
	"net"
	"testing"
	"testing/synctest"
	"time"

	"github.com/insomniacslk/dhcp/dhcpv4"
	"github.com/insomniacslk/dhcp/dhcpv4/nclient4"
	"github.com/insomniacslk/dhcp/dhcpv6"
	"github.com/insomniacslk/dhcp/dhcpv6/nclient6"
	"github.com/insomniacslk/dhcp/iana"
)

const (
	eLease4 = 90
	eLease6 = 91
)

// a scripted reply: what a server puts on the wire in response to a client message
type replyTpl struct {
	kind   int  // 0 OFFER 1 ACK 2 NAK 3 other type (INFORM) 4 undecodable 5 wrong xid 6 wrong hardware address 7 BOOTREQUEST opcode
	server byte // server identifier 10.0.0.<server>; 0 = no server identifier option
	yi     byte // offered / acknowledged address 192.168.0.<yi>
	inner  int  // for kinds 5..7: the message type of the otherwise valid reply (0 OFFER 1 ACK 2 NAK)
	extra  byte // an additional option the server chose to send (0 = none): rapid commit, lease times, client id, relay info ...
}

func (tpl replyTpl) wire4(req *dhcpv4.DHCPv4) []byte {
	k := tpl.kind
	if k >= 5 {
		k = tpl.inner
	}
	mt := map[int]dhcpv4.MessageType{0: dhcpv4.MessageTypeOffer, 1: dhcpv4.MessageTypeAck, 2: dhcpv4.MessageTypeNak, 3: dhcpv4.MessageTypeInform}[k]
	mods := []dhcpv4.Modifier{dhcpv4.WithMessageType(mt), dhcpv4.WithYourIP(net.IP{192, 168, 0, tpl.yi})}
	if tpl.server != 0 {
		sid := net.IP{10, 0, 0, tpl.server}
		if tpl.server == 255 {
			sid = net.IP{0, 0, 0, 0} // an identifier that is there and says 0.0.0.0 - not the same as none
		}
		mods = append(mods, dhcpv4.WithOption(dhcpv4.OptServerIdentifier(sid)))
	}
	if tpl.extra != 0 {
		val := map[byte][]byte{80: {}, 51: {0, 0, 14, 16}, 58: {0, 0, 7, 8}, 59: {0, 0, 12, 0}, 61: {1, 2, 0, 0, 0, 0, 1}, 82: {1, 2, 'e', '0'}, 116: {1}, 52: {3}}[tpl.extra]
		mods = append(mods, dhcpv4.WithOption(dhcpv4.OptGeneric(dhcpv4.GenericOptionCode(tpl.extra), val)))
	}
	rep, _ := dhcpv4.NewReplyFromRequest(req, mods...)
	// siaddr is the next-server (boot) address a server chose to announce - often another host, which may well be
	// one of the DHCP servers on the segment; it says nothing about which server sent the message
	if tpl.yi%4 != 0 {
		rep.ServerIPAddr = net.IP{10, 0, 0, 1 + tpl.yi%3}
	}
	switch tpl.kind {
	case 5:
		rep.TransactionID[0] ^= 0xff
	case 6:
		// not this client's hardware address: a foreign one, a shorter one, or none at all (hlen 0)
		rep.ClientHWAddr = []net.HardwareAddr{{2, 0, 0, 0, 0, 0x77}, {}, labHW[:3], append(append(net.HardwareAddr{}, labHW...), 0, 0)}[int(tpl.yi)%4]
	case 7:
		rep.OpCode = []dhcpv4.OpcodeType{dhcpv4.OpcodeBootRequest, 0, 3, 0x82, 0xff}[int(tpl.yi)%5]
	}
	b := rep.ToBytes()
	if tpl.kind == 4 {
		b = b[:100]
	}
	return b
}

type lease4Out struct {
	code     byte
	request  []byte // the transmitted REQUEST, if any
	offer    *dhcpv4.DHCPv4
	final    *dhcpv4.DHCPv4
	xid      []byte
	ph1, ph2 [][]byte
	txCount  int
}

func leaseScenario4(ph1, ph2 []replyTpl) (o lease4Out) {
	runBubble(func(t *testing.T) {
		conn := newLabConn()
		copts := []nclient4.ClientOpt{nclient4.WithTimeout(100 * time.Millisecond), nclient4.WithRetry(1)}
		switch (len(ph1) + 2*len(ph2)) % 4 {
		case 1:
			copts = append(copts, nclient4.WithSummaryLogger())
		case 3:
			copts = append(copts, nclient4.WithDebugLogger())
		}
		c, err := nclient4.NewWithConn(conn, labHW, copts...)
		if err != nil {
			t.Fatal(err)
		}
		phase := 0
		conn.onWrite = func(b []byte) {
			req, err := dhcpv4.FromBytes(b)
			if err != nil {
				return
			}
			var tpls []replyTpl
			switch req.MessageType() {
			case dhcpv4.MessageTypeDiscover:
				phase = 1
				tpls = ph1
				o.xid = append([]byte{}, req.TransactionID[:]...)
			case dhcpv4.MessageTypeRequest:
				phase = 2
				tpls = ph2
				o.request = append([]byte{}, b...)
			}
			var wires [][]byte
			for _, tp := range tpls {
				wires = append(wires, tp.wire4(req))
			}
			if phase == 1 {
				o.ph1 = wires
			} else {
				o.ph2 = wires
			}
			go func() {
				for _, w := range wires {
					select {
					case conn.in <- w:
					case <-conn.closed:
						return
					}
				}
			}()
		}
		lease, err := c.Request(context.Background())
		var nak *nclient4.ErrNak
		switch {
		case err == nil && lease != nil:
			o.code, o.offer, o.final = 3, lease.Offer, lease.ACK
		case errors.As(err, &nak):
			o.code, o.offer, o.final = 4, nak.Offer, nak.Nak
		case o.request != nil:
			o.code = 2
		default:
			o.code = 1
		}
		o.txCount = len(conn.snapshot())
		c.Close()
		synctest.Wait()
	})
	return
}

func replyObs(p *dhcpv4.DHCPv4) [][]byte {
	return [][]byte{p.YourIPAddr, {byte(p.MessageType())}, []byte(p.ServerIdentifier())}
}

func init() {
	register(eLease4, "nclient4.Request", nil)
	register(eLease6, "nclient6.RapidSolicit", nil)
	props["C13"] = genC13
}

func (r *Run) randTpl(phase int) replyTpl {
	tp := replyTpl{server: byte(r.Pick(0, 1, 1, 2, 3, 0, 255)), yi: byte(1 + r.Rng.Intn(250)), inner: phase - 1, extra: byte(r.Pick(0, 0, 0, 80, 80, 51, 58, 59, 61, 82, 116, 52))}
	if phase == 1 {
		tp.kind = r.Pick(0, 0, 0, 1, 2, 3, 4, 5, 6, 7)
	} else {
		tp.kind = r.Pick(1, 1, 1, 2, 0, 3, 4, 5, 6, 7)
		if tp.inner == 1 && r.Rng.Intn(3) == 0 {
			tp.inner = 2
		}
	}
	return tp
}

func genC13(r *Run) {
	evals := 0
	n := r.N(400, 40000)
	for i := 0; i < n; i++ {
		var ph1, ph2 []replyTpl
		seenOffer := false
		for k := r.Rng.Intn(5); k > 0; k-- {
			tp := r.randTpl(1)
			// A datagram "belongs" to the phase during which it ARRIVES.  Leftovers of phase 1 that arrive while
			// the REQUEST call waits would be phase-2 datagrams with an arrival order the script cannot pin,
			// so after the first valid OFFER the phase-1 script holds no routable ACK/NAK (they are scripted in phase 2).
			if seenOffer && (tp.kind == 1 || tp.kind == 2) {
				tp.kind = 3
			}
			if tp.kind == 0 {
				seenOffer = true
			}
			ph1 = append(ph1, tp)
		}
		for k := r.Rng.Intn(6); k > 0; k-- {
			ph2 = append(ph2, r.randTpl(2))
		}
		if r.Rng.Intn(4) == 0 && len(ph1) > 0 && ph1[0].kind == 0 { // duplicated offer
			ph1 = append(ph1, ph1[0])
		}
		o := leaseScenario4(ph1, ph2)
		evals++
		if o.xid == nil {
			continue
		}
		args := [][]byte{labHW, o.xid, {byte(len(o.ph1))}}
		args = append(args, o.ph1...)
		args = append(args, o.ph2...)
		out := [][]byte{{o.code}}
		var reqPkt *dhcpv4.DHCPv4
		if o.request != nil {
			reqPkt, _ = dhcpv4.FromBytes(o.request)
			out = append(out, obsPkt4(reqPkt)...)
		}
		// which offer was selected: for NoAnswer we do not get it back from the API; recover it from the REQUEST
		var offer *dhcpv4.DHCPv4
		if o.offer != nil {
			offer = o.offer
		} else if reqPkt != nil {
			for _, w := range o.ph1 {
				if p, err := dhcpv4.FromBytes(w); err == nil && p.MessageType() == dhcpv4.MessageTypeOffer && p.OpCode == dhcpv4.OpcodeBootReply &&
					bytes.Equal(p.ClientHWAddr, labHW) && p.TransactionID == reqPkt.TransactionID {
					offer = p
					break
				}
			}
		}
		if offer != nil {
			out = append(out, replyObs(offer)...)
		}
		if o.final != nil {
			out = append(out, replyObs(o.final)...)
		}
		c := Case{eLease4, args}
		goRes[c.Line()] = out
		r.Add(eLease4, args...)
		r.Count(fmt.Sprintf("v4-result=%d", o.code))
		// ---- direct oracle on the real code
		cs := fmt.Sprintf("phase1=%v phase2=%v", ph1, ph2)
		if reqPkt != nil && offer != nil {
			if !bytes.Equal(reqPkt.ClientHWAddr, labHW) {
				r.Fail("c13-request-chaddr", cs, "")
			}
			if !bytes.Equal(reqPkt.RequestedIPAddress(), offer.YourIPAddr.To4()) {
				r.Fail("c13-request-address", cs, fmt.Sprintf("requested %v, offered %v", reqPkt.RequestedIPAddress(), offer.YourIPAddr))
			}
			if !reqPkt.ServerIdentifier().Equal(offer.ServerIdentifier()) {
				r.Fail("c13-request-server-id", cs, fmt.Sprintf("%v vs %v", reqPkt.ServerIdentifier(), offer.ServerIdentifier()))
			}
		}
		if o.final != nil {
			if !o.final.ServerIdentifier().Equal(offer.ServerIdentifier()) {
				r.Fail("c13-completed-by-other-server", cs, fmt.Sprintf("selected %v, completed by %v", offer.ServerIdentifier(), o.final.ServerIdentifier()))
			}
			if o.code == 3 && o.final.MessageType() != dhcpv4.MessageTypeAck {
				r.Fail("c13-lease-without-ack", cs, fmt.Sprint(o.final.MessageType()))
			}
			if o.code == 4 && o.final.MessageType() != dhcpv4.MessageTypeNak {
				r.Fail("c13-nak-error-without-nak", cs, "")
			}
		}
		// specification recomputed from the templates: the first valid OFFER is selected; the first valid ACK/NAK of that server completes
		wantCode, _ := specLease4(ph1, ph2)
		if wantCode != o.code {
			r.Fail("c13-exchange-outcome", cs, fmt.Sprintf("got code %d, specification %d", o.code, wantCode))
		}
	}
	// renew / release field rules
	for i := 0; i < r.N(60, 5000); i++ {
		renewRelease(r)
		evals++
	}
	// DHCPv6
	for i := 0; i < r.N(300, 30000); i++ {
		lease6(r)
		evals++
	}
	r.Extra["oracle_evaluations"] = evals
}

func specLease4(ph1, ph2 []replyTpl) (byte, int) {
	sel := -1
	for i, tp := range ph1 {
		if tp.kind == 0 {
			sel = i
			break
		}
	}
	if sel < 0 {
		return 1, -1
	}
	for i, tp := range ph2 {
		if (tp.kind == 1 || tp.kind == 2) && tp.server == ph1[sel].server {
			if tp.kind == 1 {
				return 3, i
			}
			return 4, i
		}
	}
	return 2, -1
}

func renewRelease(r *Run) {
	runBubble(func(t *testing.T) {
		conn := newLabConn()
		c, _ := nclient4.NewWithConn(conn, labHW, nclient4.WithTimeout(50*time.Millisecond), nclient4.WithRetry(1))
		yi := net.IP{192, 168, 0, byte(1 + r.Rng.Intn(250))}
		sid := net.IP{10, 0, 0, byte(1 + r.Rng.Intn(3))}
		disc, _ := dhcpv4.NewDiscovery(labHW)
		// the leased address is the ACK's; an OFFER may have proposed another one
		offYi := yi
		if r.Rng.Intn(2) == 0 {
			offYi = net.IP{192, 168, 1, byte(1 + r.Rng.Intn(250))}
		}
		offer, _ := dhcpv4.NewReplyFromRequest(disc, dhcpv4.WithMessageType(dhcpv4.MessageTypeOffer), dhcpv4.WithYourIP(offYi), dhcpv4.WithOption(dhcpv4.OptServerIdentifier(sid)))
		ack, _ := dhcpv4.NewReplyFromRequest(disc, dhcpv4.WithMessageType(dhcpv4.MessageTypeAck), dhcpv4.WithYourIP(yi), dhcpv4.WithOption(dhcpv4.OptServerIdentifier(sid)))
		// siaddr is the next-server (bootstrap) address, not the DHCP server: any value, in OFFER and ACK
		if r.Rng.Intn(2) == 0 {
			ack.ServerIPAddr = net.IP{192, 0, 2, byte(1 + r.Rng.Intn(250))}
		}
		if r.Rng.Intn(2) == 0 {
			offer.ServerIPAddr = net.IP{198, 51, 100, byte(1 + r.Rng.Intn(250))}
		}
		if r.Rng.Intn(3) == 0 {
			ack.GatewayIPAddr = net.IP{203, 0, 113, 7}
		}
		if r.Rng.Intn(2) == 0 {
			// a server may echo in ciaddr the address the client had when it asked (an earlier lease): the leased
			// address is yiaddr all the same
			ack.ClientIPAddr = net.IP{192, 168, 3, byte(1 + r.Rng.Intn(250))}
		}
		lease := &nclient4.Lease{Offer: offer, ACK: ack}
		c.Renew(context.Background(), lease)
		if err := c.Release(lease); err != nil {
			r.Fail("c13-release-error", "", err.Error())
		}
		ws := conn.snapshot()
		c.Close()
		synctest.Wait()
		if len(ws) != 2 {
			r.Fail("c13-renew-release-transmissions", "", fmt.Sprintf("%d transmissions, want 1 renew + 1 release", len(ws)))
			return
		}
		ren, err1 := dhcpv4.FromBytes(ws[0].data)
		rel, err2 := dhcpv4.FromBytes(ws[1].data)
		if err1 != nil || err2 != nil {
			r.Fail("c13-renew-release-undecodable", "", "")
			return
		}
		if ren.MessageType() != dhcpv4.MessageTypeRequest || !ren.ClientIPAddr.Equal(yi) || ren.IsBroadcast() ||
			ren.Options.Has(dhcpv4.OptionRequestedIPAddress) || ren.Options.Has(dhcpv4.OptionServerIdentifier) {
			r.Fail("c13-renew-fields", "", ren.Summary())
		}
		if rel.MessageType() != dhcpv4.MessageTypeRelease || !rel.ClientIPAddr.Equal(yi) || !rel.ServerIdentifier().Equal(sid) ||
			!bytes.Equal(rel.ClientHWAddr, labHW) || ws[1].dest != (&net.UDPAddr{IP: sid, Port: 67}).String() {
			r.Fail("c13-release-fields", "", rel.Summary()+" to "+ws[1].dest)
		}
	})
}

// ---- DHCPv6: RapidSolicit
type reply6Tpl struct {
	kind     int // 0 ADVERTISE 1 REPLY 2 other type 3 wrong xid 4 undecodable 5 ADVERTISE lacking the server id
	// 6 (second phase only): a late or duplicated ADVERTISE answering the SOLICIT, i.e. carrying the SOLICIT's transaction id
	withIANA bool
	extra    int // an additional option the server chose to send (0 = none): rapid commit 14, preference 7, unicast 12, reconfigure accept 20, status 13
}

func lease6(r *Run) {
	var ph1, ph2 []reply6Tpl
	for k := r.Rng.Intn(4); k > 0; k-- {
		ph1 = append(ph1, reply6Tpl{kind: r.Pick(0, 0, 1, 2, 3, 4, 5), withIANA: r.Rng.Intn(4) != 0, extra: r.Pick(0, 0, 14, 14, 7, 12, 20, 13)})
	}
	for k := r.Rng.Intn(4); k > 0; k-- {
		ph2 = append(ph2, reply6Tpl{kind: r.Pick(1, 1, 0, 2, 3, 4, 6, 6), withIANA: true, extra: r.Pick(0, 0, 14, 7, 12, 20, 13)})
	}
	var solXid, reqXid []byte
	var w1, w2 [][]byte
	var reqWire []byte
	var res *dhcpv6.Message
	var resErr error
	runBubble(func(t *testing.T) {
		conn := newLabConn()
		// the client's own configuration is part of "whatever": logging of dropped datagrams and message logging on or off
		copts := []nclient6.ClientOpt{nclient6.WithTimeout(100 * time.Millisecond), nclient6.WithRetry(1)}
		switch (len(ph1) + 2*len(ph2)) % 4 {
		case 1:
			copts = append(copts, nclient6.WithLogDroppedPackets())
		case 2:
			copts = append(copts, nclient6.WithLogDroppedPackets(), nclient6.WithSummaryLogger())
		case 3:
			copts = append(copts, nclient6.WithDebugLogger())
		}
		c, _ := nclient6.NewWithConn(conn, labHW, copts...)
		mk := func(tp reply6Tpl, req *dhcpv6.Message) []byte {
			mt := map[int]dhcpv6.MessageType{0: dhcpv6.MessageTypeAdvertise, 1: dhcpv6.MessageTypeReply, 2: dhcpv6.MessageTypeReconfigure,
				3: dhcpv6.MessageTypeAdvertise, 4: dhcpv6.MessageTypeAdvertise, 5: dhcpv6.MessageTypeAdvertise, 6: dhcpv6.MessageTypeAdvertise}[tp.kind]
			m := &dhcpv6.Message{MessageType: mt, TransactionID: req.TransactionID}
			if tp.kind == 6 && len(solXid) == 3 {
				copy(m.TransactionID[:], solXid)
				m.AddOption(&dhcpv6.OptionGeneric{OptionCode: 4001, OptionData: []byte("late answer to the SOLICIT")})
			}
			if cid := req.GetOneOption(dhcpv6.OptionClientID); cid != nil {
				m.AddOption(cid)
			}
			if tp.kind != 5 {
				m.AddOption(dhcpv6.OptServerID(&dhcpv6.DUIDLL{HWType: iana.HWTypeEthernet, LinkLayerAddr: net.HardwareAddr{2, 0, 0, 0, 0, 9}}))
			}
			if tp.withIANA {
				// an IA_NA may hold several addresses (and a status code): the REQUEST carries it whole
				// timers and lifetimes at the ends of their 32-bit range too (0xffffffff = infinity, RFC 8415 7.7)
				secs := func(i int) time.Duration {
					return time.Duration([]uint32{3600, 7200, 0, 1, 0xffffffff, 0xfffffffe, 0x80000000}[(int(req.TransactionID[1])+i+tp.extra)%7]) * time.Second
				}
				ia := &dhcpv6.OptIANA{IaId: [4]byte{1, 2, 3, 4}, T1: secs(0), T2: secs(1)}
				for k := 0; k < len(solXid)%2+int(req.TransactionID[2])%3; k++ {
					ia.Options.Add(&dhcpv6.OptIAAddress{IPv6Addr: net.ParseIP(fmt.Sprintf("2001:db8::%d", k+1)), PreferredLifetime: secs(2 + k), ValidLifetime: secs(3 + k)})
				}
				if req.TransactionID[1]%2 == 0 {
					ia.Options.Add(&dhcpv6.OptStatusCode{StatusCode: 0, StatusMessage: "ok"})
				}
				m.AddOption(ia)
			}
			switch tp.extra {
			case 14:
				m.AddOption(&dhcpv6.OptionGeneric{OptionCode: dhcpv6.OptionRapidCommit})
			case 7:
				m.AddOption(&dhcpv6.OptionGeneric{OptionCode: dhcpv6.OptionPreference, OptionData: []byte{255}})
			case 12:
				m.AddOption(&dhcpv6.OptionGeneric{OptionCode: dhcpv6.OptionUnicast, OptionData: net.ParseIP("2001:db8::53")})
			case 20:
				m.AddOption(&dhcpv6.OptionGeneric{OptionCode: dhcpv6.OptionReconfAccept})
			case 13:
				m.AddOption(&dhcpv6.OptStatusCode{StatusCode: 0, StatusMessage: "fine"})
			}
			if tp.kind == 3 {
				m.TransactionID[0] ^= 0xff
			}
			b := m.ToBytes()
			if tp.kind == 4 {
				b = b[:len(b)-1]
			}
			return b
		}
		conn.onWrite = func(b []byte) {
			req, err := dhcpv6.MessageFromBytes(b)
			if err != nil {
				return
			}
			var wires [][]byte
			switch req.MessageType {
			case dhcpv6.MessageTypeSolicit:
				solXid = append([]byte{}, req.TransactionID[:]...)
				for _, tp := range ph1 {
					wires = append(wires, mk(tp, req))
				}
				w1 = wires
			case dhcpv6.MessageTypeRequest:
				reqXid = append([]byte{}, req.TransactionID[:]...)
				reqWire = append([]byte{}, b...)
				for _, tp := range ph2 {
					wires = append(wires, mk(tp, req))
				}
				w2 = wires
			}
			go func() {
				for _, w := range wires {
					select {
					case conn.in <- w:
					case <-conn.closed:
						return
					}
				}
			}()
		}
		res, resErr = c.RapidSolicit(context.Background())
		c.Close()
		synctest.Wait()
	})
	if solXid == nil {
		return
	}
	if reqXid == nil {
		reqXid = []byte{0, 0, 0}
	}
	args := [][]byte{solXid, reqXid, {byte(len(w1))}}
	args = append(args, w1...)
	args = append(args, w2...)
	var out [][]byte
	switch {
	case resErr == nil && res != nil && reqWire == nil:
		out = append([][]byte{{2}}, dumpMsg(res)...)
	case resErr == nil && res != nil:
		rq, _ := dhcpv6.FromBytes(reqWire)
		out = append(append([][]byte{{5}}, dumpMsg(rq)...), dumpMsg(res)...)
	case reqWire != nil:
		rq, _ := dhcpv6.FromBytes(reqWire)
		out = append([][]byte{{4}}, dumpMsg(rq)...)
	case errors.Is(resErr, nclient6.ErrNoResponse):
		out = [][]byte{{1}}
	default:
		out = [][]byte{{3}}
	}
	c := Case{eLease6, args}
	goRes[c.Line()] = out
	r.Add(eLease6, args...)
	r.Count(fmt.Sprintf("v6-result=%d", out[0][0]))
	// direct oracle
	cs := fmt.Sprintf("phase1=%v phase2=%v", ph1, ph2)
	if res != nil && resErr == nil {
		if reqWire == nil {
			if res.MessageType != dhcpv6.MessageTypeReply || !bytes.Equal(res.TransactionID[:], solXid) {
				r.Fail("c13-v6-rapid-commit", cs, "a result without REQUEST must be a REPLY to the SOLICIT")
			}
		} else {
			rq, _ := dhcpv6.MessageFromBytes(reqWire)
			if res.GetOneOption(dhcpv6.OptionCode(4001)) != nil {
				r.Fail("c13-v6-solicit-answer-completes-request", cs, "a late ADVERTISE answering the SOLICIT was returned as the outcome of the REQUEST (REQUEST and SOLICIT share a transaction id)")
			}
			if !bytes.Equal(res.TransactionID[:], rq.TransactionID[:]) {
				r.Fail("c13-v6-pairing", cs, "the returned message does not carry the REQUEST's transaction id")
			}
			if sel := firstAdvertise(w1, solXid); sel != nil && rq.Options.OneIANA() != nil && sel.Options.OneIANA() != nil &&
				!bytes.Equal(rq.Options.OneIANA().ToBytes(), sel.Options.OneIANA().ToBytes()) {
				r.Fail("c13-v6-request-ia-na", cs, fmt.Sprintf("the REQUEST's IA_NA %x is not the advertised one %x", rq.Options.OneIANA().ToBytes(), sel.Options.OneIANA().ToBytes()))
			}
			// the same on the octets that travelled: the IA_NA in the transmitted REQUEST is, octet for octet, the IA_NA of
			// the ADVERTISE it answers (read from both datagrams without the library's option decoders)
			if sel := firstAdvertise(w1, solXid); sel != nil {
				for _, w := range w1 {
					if m, err := dhcpv6.MessageFromBytes(w); err == nil && m == sel || (err == nil && bytes.Equal(m.ToBytes(), sel.ToBytes())) {
						adv, req := rawOption6(w[4:], 3), rawOption6(reqWire[4:], 3)
						if adv != nil && req != nil && !bytes.Equal(adv, req) {
							r.Fail("c13-v6-request-ia-na", cs, fmt.Sprintf("the IA_NA transmitted in the REQUEST is %x, the one received in the ADVERTISE was %x", req, adv))
						}
						break
					}
				}
			}
			if rq.GetOneOption(dhcpv6.OptionClientID) == nil || rq.GetOneOption(dhcpv6.OptionServerID) == nil || rq.Options.OneIANA() == nil {
				r.Fail("c13-v6-request-fields", cs, "REQUEST lacks client id, server id or IA_NA")
			}
		}
	}
}

// firstAdvertise: the first datagram of the first phase that the SOLICIT call accepts as an ADVERTISE
func firstAdvertise(ws [][]byte, xid []byte) *dhcpv6.Message {
	for _, w := range ws {
		m, err := dhcpv6.MessageFromBytes(w)
		if err != nil || !bytes.Equal(m.TransactionID[:], xid) {
			continue
		}
		if m.MessageType == dhcpv6.MessageTypeAdvertise {
			return m
		}
		if m.MessageType == dhcpv6.MessageTypeReply {
			return nil
		}
	}
	return nil
}


// rawOption6: the value of the first option with the given code in a DHCPv6 option area, by a plain TLV walk
func rawOption6(area []byte, code int) []byte {
	for len(area) >= 4 {
		c, l := int(area[0])<<8|int(area[1]), int(area[2])<<8|int(area[3])
		if 4+l > len(area) {
			return nil
		}
		if c == code {
			return area[4 : 4+l]
		}
		area = area[4+l:]
	}
	return nil
}
