(** C15: DHCPv4 modifiers (dhcpv4/modifiers.go) as a deep embedding, and the
    exported New* builders (dhcpv4/dhcpv4.go:196-320) as folds of default
    modifiers followed by the caller's. *)
From DV Require Import Base.Bytes V4.Model V4.Accessors V6.Model.

Inductive modifier :=
| MXid (xid : bytes)
| MClientIP (ip : goip) | MYourIP (ip : goip) | MServerIP (ip : goip) | MGatewayIP (ip : goip)
| MOptCopied (src : pkt4) (code : byte)
| MReply (src : pkt4)
| MHWType (t : N)
| MBroadcast (b : bool)
| MHwAddr (a : bytes)
| MGeneric (code : byte) (v : bytes)        (* WithOption / WithGeneric: any option is a code and its octets *)
| MWithout (code : byte)
| MMsgType (t : N)
| MRequested (codes : list byte)
| MRelay (ip : goip)
| MNetmask (m : bytes)
| MLeaseTime (secs : N).

Definition is_bcast (f : N) : bool := (32768 <=? f mod 65536)%N.
Definition set_bcast (f : N) : N := if is_bcast f then f else (f + 32768)%N.
Definition set_ucast (f : N) : N := if is_bcast f then (f - 32768)%N else f.

Definition with_opts (p : pkt4) (o : optmap) : pkt4 :=
  mkPkt4 (p_op p) (p_hwtype p) (p_hops p) (p_xid p) (p_secs p) (p_flags p)
         (p_ciaddr p) (p_yiaddr p) (p_siaddr p) (p_giaddr p) (p_chaddr p) (p_sname p) (p_file p) o.

(** OptionCodeList.Add *)
Fixpoint prl_add (cur : bytes) (cs : list byte) : bytes :=
  match cs with
  | [] => cur
  | c :: r => prl_add (if existsb (beqb c) cur then cur else cur ++ [c]) r
  end.

(** IP(ip).ToBytes() = ip.To4() *)
Definition ip_to4_bytes (ip : goip) : bytes :=
  match ip with Some b => match to4 b with Some b4 => b4 | None => [] end | None => [] end.

Definition op_request : N := 1.
Definition op_reply : N := 2.

Definition apply_mod (p : pkt4) (m : modifier) : pkt4 :=
  match m with
  | MXid x => mkPkt4 (p_op p) (p_hwtype p) (p_hops p) (copy_into 4 4 x) (p_secs p) (p_flags p)
                     (p_ciaddr p) (p_yiaddr p) (p_siaddr p) (p_giaddr p) (p_chaddr p) (p_sname p) (p_file p) (p_opts p)
  | MClientIP ip => mkPkt4 (p_op p) (p_hwtype p) (p_hops p) (p_xid p) (p_secs p) (p_flags p)
                     ip (p_yiaddr p) (p_siaddr p) (p_giaddr p) (p_chaddr p) (p_sname p) (p_file p) (p_opts p)
  | MYourIP ip => mkPkt4 (p_op p) (p_hwtype p) (p_hops p) (p_xid p) (p_secs p) (p_flags p)
                     (p_ciaddr p) ip (p_siaddr p) (p_giaddr p) (p_chaddr p) (p_sname p) (p_file p) (p_opts p)
  | MServerIP ip => mkPkt4 (p_op p) (p_hwtype p) (p_hops p) (p_xid p) (p_secs p) (p_flags p)
                     (p_ciaddr p) (p_yiaddr p) ip (p_giaddr p) (p_chaddr p) (p_sname p) (p_file p) (p_opts p)
  | MGatewayIP ip => mkPkt4 (p_op p) (p_hwtype p) (p_hops p) (p_xid p) (p_secs p) (p_flags p)
                     (p_ciaddr p) (p_yiaddr p) (p_siaddr p) ip (p_chaddr p) (p_sname p) (p_file p) (p_opts p)
  | MOptCopied src c =>
      match get_opt (p_opts src) c with
      | Some v => with_opts p (update_opt (p_opts p) c v)      (* len(val) > 0 *)
      | None => p
      end
  | MReply src =>
      mkPkt4 (if (p_op src =? op_request)%N then op_reply else op_request) (p_hwtype src) (p_hops p)
             (p_xid src) (p_secs p) (p_flags src)
             (p_ciaddr p) (p_yiaddr p) (p_siaddr p) (p_giaddr p) (p_chaddr src) (p_sname p) (p_file p) (p_opts p)
  | MHWType t => mkPkt4 (p_op p) t (p_hops p) (p_xid p) (p_secs p) (p_flags p)
                     (p_ciaddr p) (p_yiaddr p) (p_siaddr p) (p_giaddr p) (p_chaddr p) (p_sname p) (p_file p) (p_opts p)
  | MBroadcast b => mkPkt4 (p_op p) (p_hwtype p) (p_hops p) (p_xid p) (p_secs p)
                     (if b then set_bcast (p_flags p) else set_ucast (p_flags p))
                     (p_ciaddr p) (p_yiaddr p) (p_siaddr p) (p_giaddr p) (p_chaddr p) (p_sname p) (p_file p) (p_opts p)
  | MHwAddr a => mkPkt4 (p_op p) (p_hwtype p) (p_hops p) (p_xid p) (p_secs p) (p_flags p)
                     (p_ciaddr p) (p_yiaddr p) (p_siaddr p) (p_giaddr p) a (p_sname p) (p_file p) (p_opts p)
  | MGeneric c v => with_opts p (update_opt (p_opts p) c v)
  | MWithout c => with_opts p (delete_opt (p_opts p) c)
  | MMsgType t => with_opts p (update_opt (p_opts p) (n2b 53) [n2b t])
  | MRequested cs =>
      let cur := match get_opt (p_opts p) (n2b 55) with Some v => v | None => [] end in
      with_opts p (update_opt (p_opts p) (n2b 55) (prl_add cur cs))
  | MRelay ip => mkPkt4 (p_op p) (p_hwtype p) ((p_hops p + 1) mod 256)%N (p_xid p) (p_secs p) (set_ucast (p_flags p))
                     (p_ciaddr p) (p_yiaddr p) (p_siaddr p) ip (p_chaddr p) (p_sname p) (p_file p) (p_opts p)
  | MNetmask m => with_opts p (update_opt (p_opts p) (n2b 1) (firstn 4 m))
  | MLeaseTime s => with_opts p (update_opt (p_opts p) (n2b 51) (be32 s))
  end.

Definition ipv4zero : goip := Some (v4_in_v6_prefix ++ zeros 4).

(** newDHCPv4 *)
Definition base_pkt (xid : bytes) : pkt4 :=
  mkPkt4 op_request 1 0 xid 0 0 ipv4zero ipv4zero ipv4zero ipv4zero (zeros 6) [] [] [].

Definition build (xid : bytes) (mods : list modifier) : pkt4 := fold_left apply_mod mods (base_pkt xid).

Definition default_prl : list byte := [n2b 1; n2b 3; n2b 15; n2b 6].

Definition defaults_discovery (hw : bytes) : list modifier := [MHwAddr hw; MRequested default_prl; MMsgType 1].
Definition defaults_inform (hw : bytes) (ip : goip) : list modifier := [MHwAddr hw; MMsgType 8; MClientIP ip].
Definition defaults_request_from_offer (offer : pkt4) : list modifier :=
  [MReply offer; MMsgType 3; MClientIP (p_ciaddr offer); MGeneric (n2b 50) (ip_to4_bytes (p_yiaddr offer));
   MOptCopied offer (n2b 54); MRequested default_prl].
Definition defaults_renew_from_ack (ack : pkt4) : list modifier :=
  [MReply ack; MMsgType 3; MClientIP (p_yiaddr ack); MBroadcast false; MRequested default_prl].
Definition defaults_reply_from_request (req : pkt4) : list modifier :=
  [MReply req; MGatewayIP (p_giaddr req); MOptCopied req (n2b 82); MOptCopied req (n2b 61)].
Definition defaults_release_from_ack (ack : pkt4) : list modifier :=
  [MMsgType 7; MClientIP (p_yiaddr ack); MHwAddr (p_chaddr ack); MBroadcast false; MOptCopied ack (n2b 54)].

(** PrependModifiers(user, defaults...) = defaults ++ user *)
Definition new_with (xid : bytes) (defaults user : list modifier) : pkt4 := build xid (defaults ++ user).

(** * Theorems *)

(** caller-supplied modifiers are applied after the defaults ... *)
Theorem user_after_defaults xid defaults user :
  new_with xid defaults user = fold_left apply_mod user (build xid defaults).
Proof. unfold new_with, build. apply fold_left_app. Qed.

(** ... and the last one prevails: whatever field a modifier sets has that value at the end *)
Theorem last_modifier_applied xid defaults user m :
  new_with xid defaults (user ++ [m]) = apply_mod (new_with xid defaults user) m.
Proof. unfold new_with, build. rewrite app_assoc, fold_left_app. reflexivity. Qed.

Lemma lookup_update_same m : forall c v, lookup c (update_opt m c v) = Some v.
Proof.
  induction m as [|[k w] m IH]; intros c v; cbn [update_opt lookup].
  - assert (E : beqb c c = true) by (apply beqb_eq; reflexivity). rewrite E. reflexivity.
  - destruct (beqb k c) eqn:E; cbn [lookup]; rewrite E; [reflexivity | apply IH].
Qed.

Lemma lookup_update_other m : forall c c' v, c <> c' -> lookup c' (update_opt m c v) = lookup c' m.
Proof.
  induction m as [|[k w] m IH]; intros c c' v H; cbn [update_opt lookup].
  - assert (E : beqb c c' = false) by (apply beqb_neq; exact H). rewrite E. reflexivity.
  - destruct (beqb k c) eqn:E; cbn [lookup].
    + apply beqb_eq in E. subst k. assert (E' : beqb c c' = false) by (apply beqb_neq; exact H). rewrite E'. reflexivity.
    + destruct (beqb k c'); [reflexivity | apply IH; exact H].
Qed.

(** what the copied option looks like in the result *)
Definition echoed (src : pkt4) (c : byte) (r : pkt4) : Prop :=
  match get_opt (p_opts src) c with
  | Some v => lookup c (p_opts r) = Some v          (* present with a non-empty value: echoed byte for byte *)
  | None => lookup c (p_opts r) = None              (* absent or empty: omitted *)
  end.

(** NewReplyFromRequest without user modifiers, for EVERY request *)
Theorem reply_from_request xid req :
  let r := new_with xid (defaults_reply_from_request req) [] in
  p_op r = (if (p_op req =? op_request)%N then op_reply else op_request) /\
  p_xid r = p_xid req /\ p_hwtype r = p_hwtype req /\ p_chaddr r = p_chaddr req /\
  p_flags r = p_flags req /\ p_giaddr r = p_giaddr req /\
  echoed req (n2b 82) r /\ echoed req (n2b 61) r.
Proof.
  unfold new_with, build, defaults_reply_from_request, echoed. rewrite app_nil_r. cbn [fold_left apply_mod].
  destruct (get_opt (p_opts req) (n2b 82)) as [v82|] eqn:E82;
  destruct (get_opt (p_opts req) (n2b 61)) as [v61|] eqn:E61;
    cbn [with_opts p_op p_xid p_hwtype p_chaddr p_flags p_giaddr p_opts base_pkt update_opt lookup];
    repeat split; try reflexivity.
Qed.

(** NewRequestFromOffer: asks for exactly the offered address from the offering server under the offer's id *)
Theorem request_from_offer xid offer :
  let r := new_with xid (defaults_request_from_offer offer) [] in
  p_xid r = p_xid offer /\ p_chaddr r = p_chaddr offer /\ p_hwtype r = p_hwtype offer /\ p_flags r = p_flags offer /\
  p_op r = (if (p_op offer =? op_request)%N then op_reply else op_request) /\
  p_ciaddr r = p_ciaddr offer /\
  lookup (n2b 50) (p_opts r) = Some (ip_to4_bytes (p_yiaddr offer)) /\
  lookup (n2b 53) (p_opts r) = Some [n2b 3] /\
  echoed offer (n2b 54) r /\
  lookup (n2b 55) (p_opts r) = Some default_prl.
Proof.
  unfold new_with, build, defaults_request_from_offer, echoed. rewrite app_nil_r. cbn [fold_left apply_mod].
  destruct (get_opt (p_opts offer) (n2b 54)) as [v|] eqn:E;
    cbn [with_opts p_op p_xid p_hwtype p_chaddr p_flags p_ciaddr p_opts base_pkt update_opt lookup get_opt];
    repeat split; try reflexivity.
Qed.

Lemma set_ucast_clears f : (f < 65536)%N -> is_bcast (set_ucast f) = false.
Proof.
  intros H. unfold set_ucast, is_bcast. destruct (32768 <=? f mod 65536)%N eqn:E.
  - apply N.leb_le in E. apply N.leb_gt. rewrite N.mod_small in E by lia. rewrite N.mod_small by lia. lia.
  - exact E.
Qed.

(** NewRenewFromAck: client address = leased address, unicast, no requested-address / server-id options *)
Theorem renew_from_ack xid ack : (p_flags ack < 65536)%N ->
  let r := new_with xid (defaults_renew_from_ack ack) [] in
  p_xid r = p_xid ack /\ p_chaddr r = p_chaddr ack /\ p_ciaddr r = p_yiaddr ack /\
  is_bcast (p_flags r) = false /\
  lookup (n2b 53) (p_opts r) = Some [n2b 3] /\
  lookup (n2b 50) (p_opts r) = None /\ lookup (n2b 54) (p_opts r) = None /\
  lookup (n2b 55) (p_opts r) = Some default_prl.
Proof.
  intros Hf. unfold new_with, build, defaults_renew_from_ack. rewrite app_nil_r. cbn [fold_left apply_mod].
  cbn [with_opts p_op p_xid p_hwtype p_chaddr p_flags p_ciaddr p_opts base_pkt update_opt lookup get_opt].
  repeat split; try reflexivity. apply set_ucast_clears. exact Hf.
Qed.

(** NewReleaseFromACK *)
Theorem release_from_ack xid ack :
  let r := new_with xid (defaults_release_from_ack ack) [] in
  p_chaddr r = p_chaddr ack /\ p_ciaddr r = p_yiaddr ack /\ is_bcast (p_flags r) = false /\
  lookup (n2b 53) (p_opts r) = Some [n2b 7] /\ echoed ack (n2b 54) r.
Proof.
  unfold new_with, build, defaults_release_from_ack, echoed. rewrite app_nil_r. cbn [fold_left apply_mod].
  destruct (get_opt (p_opts ack) (n2b 54)) as [v|] eqn:E;
    cbn [with_opts p_op p_xid p_hwtype p_chaddr p_flags p_ciaddr p_opts base_pkt update_opt lookup get_opt];
    repeat split; try reflexivity.
Qed.

(** NewInform / NewDiscovery *)
Theorem inform_fields xid hw ip :
  let r := new_with xid (defaults_inform hw ip) [] in
  p_chaddr r = hw /\ p_ciaddr r = ip /\ lookup (n2b 53) (p_opts r) = Some [n2b 8] /\ p_op r = op_request.
Proof. repeat split. Qed.

Theorem discovery_fields xid hw :
  let r := new_with xid (defaults_discovery hw) [] in
  p_chaddr r = hw /\ lookup (n2b 53) (p_opts r) = Some [n2b 1] /\ lookup (n2b 55) (p_opts r) = Some default_prl /\
  p_op r = op_request /\ p_xid r = xid.
Proof. repeat split. Qed.

(** a user modifier that collides with a default prevails *)
Theorem user_message_type_prevails xid defaults user t :
  lookup (n2b 53) (p_opts (new_with xid defaults (user ++ [MMsgType t]))) = Some [n2b t].
Proof. rewrite last_modifier_applied. cbn [apply_mod with_opts p_opts]. apply lookup_update_same. Qed.

Theorem user_client_ip_prevails xid defaults user ip :
  p_ciaddr (new_with xid defaults (user ++ [MClientIP ip])) = ip.
Proof. rewrite last_modifier_applied. reflexivity. Qed.

Theorem user_generic_prevails xid defaults user c v :
  lookup c (p_opts (new_with xid defaults (user ++ [MGeneric c v]))) = Some v.
Proof. rewrite last_modifier_applied. cbn [apply_mod with_opts p_opts]. apply lookup_update_same. Qed.
