(** C13 — Lease acquisition follows the DHCP exchange rules for every server behaviour. *)
From DV Require Import Base.Bytes V4.Model V4.Accessors V4.Builders V6.Model V6.Relay V6.RelayProofs Client.Lease.

(** Whatever the servers send (the phases are ANY lists of datagrams in arrival
    order: several servers, late, duplicated, malformed or hostile replies): *)

(** the REQUEST carries the client's hardware address (the offer passed the
    hardware-address filter), the offered address as requested address and the
    offering server's identifier, under the offer's transaction id *)
Theorem C13_request_fields : forall offer : pkt4,
  let r := build_request offer in
  p_chaddr r = p_chaddr offer /\ p_xid r = p_xid offer /\
  lookup (n2b 50) (p_opts r) = Some (ip_to4_bytes (p_yiaddr offer)) /\
  lookup (n2b 53) (p_opts r) = Some [n2b 3] /\
  match get_opt (p_opts offer) (n2b 54) with
  | Some v => lookup (n2b 54) (p_opts r) = Some v
  | None => lookup (n2b 54) (p_opts r) = None
  end.
Proof. exact request_carries_offer. Qed.
Print Assumptions C13_request_fields.

(** the exchange is completed only by an ACK or NAK that reached the call and
    bears the selected server's identifier; it is the first such datagram, and
    everything before it (other types, other servers, other ids, undecodable) was ignored *)
Theorem C13_completed_by_selected_server : forall hw xid ph1 ph2 offer req r,
  lease_exchange hw xid ph1 ph2 = Leased offer req r \/ lease_exchange hw xid ph1 ph2 = Nak offer req r ->
  first_reply hw xid is_offer ph1 = Some offer /\ req = build_request offer /\
  (exists pre w post, ph2 = pre ++ w :: post /\ reaches_call hw (p_xid req) w = Some r /\
     sid_equal (server_id r) (server_id offer) = true /\ (msg_type4 r = 5 \/ msg_type4 r = 6)%N /\
     Forall (fun w' => match reaches_call hw (p_xid req) w' with Some q => completes offer q = false | None => True end) pre).
Proof. exact lease_completed_only_by_selected_server. Qed.
Print Assumptions C13_completed_by_selected_server.

(** an ACK yields a lease made of that very offer and ACK; a NAK yields the NAK error *)
Theorem C13_ack_yields_lease : forall hw xid ph1 ph2 offer req r,
  lease_exchange hw xid ph1 ph2 = Leased offer req r -> msg_type4 r = 5%N.
Proof. exact ack_yields_lease. Qed.
Print Assumptions C13_ack_yields_lease.
Theorem C13_nak_yields_error : forall hw xid ph1 ph2 offer req r,
  lease_exchange hw xid ph1 ph2 = Nak offer req r -> msg_type4 r = 6%N.
Proof. exact nak_yields_error. Qed.
Print Assumptions C13_nak_yields_error.

(** renewal: the leased address in the client-address field, unicast, no requested-address / server-identifier options;
    release: message type RELEASE for the leased address with the lease's server identifier (C15's builder theorems) *)
Theorem C13_renew : forall xid ack, (p_flags ack < 65536)%N ->
  let r := new_with xid (defaults_renew_from_ack ack) [] in
  p_xid r = p_xid ack /\ p_chaddr r = p_chaddr ack /\ p_ciaddr r = p_yiaddr ack /\
  is_bcast (p_flags r) = false /\ lookup (n2b 53) (p_opts r) = Some [n2b 3] /\
  lookup (n2b 50) (p_opts r) = None /\ lookup (n2b 54) (p_opts r) = None /\ lookup (n2b 55) (p_opts r) = Some default_prl.
Proof. exact renew_from_ack. Qed.
Print Assumptions C13_renew.
Theorem C13_release : forall xid ack,
  let r := new_with xid (defaults_release_from_ack ack) [] in
  p_chaddr r = p_chaddr ack /\ p_ciaddr r = p_yiaddr ack /\ is_bcast (p_flags r) = false /\
  lookup (n2b 53) (p_opts r) = Some [n2b 7] /\ echoed ack (n2b 54) r.
Proof. exact release_from_ack. Qed.
Print Assumptions C13_release.

(** DHCPv6: a rapid-commit REPLY carrying the SOLICIT's transaction id is accepted directly ... *)
Theorem C13_v6_rapid_commit : forall sol_xid req_xid ph1 ph2 m,
  rapid_solicit sol_xid req_xid ph1 ph2 = V6Reply m -> msg_type m = 7%N /\
  exists w, In w ph1 /\ reaches_call6 sol_xid w = Some m.
Proof. exact rapid_commit_reply_accepted. Qed.
Print Assumptions C13_v6_rapid_commit.
(** REQUEST / REPLY are paired by the REQUEST's own transaction id: the outcome is the first datagram of the
    second phase that decodes as a message with that id; datagrams with another id (a late or duplicated answer
    to the SOLICIT, for instance), relay messages and undecodable datagrams before it are ignored *)
Theorem C13_v6_pairing : forall sol_xid req_xid ph1 ph2 req r,
  rapid_solicit sol_xid req_xid ph1 ph2 = V6Requested req r ->
  exists pre w post, ph2 = pre ++ w :: post /\ reaches_call6 req_xid w = Some r /\
                     Forall (fun x => reaches_call6 req_xid x = None) pre.
Proof. exact request_paired_by_xid. Qed.
Print Assumptions C13_v6_pairing.

Theorem C13_v6_other_transaction_ignored : forall req_xid w,
  (forall t os, dec_message w <> Ok (Msg t req_xid os)) -> reaches_call6 req_xid w = None.
Proof. exact other_xid_ignored. Qed.
Print Assumptions C13_v6_other_transaction_ignored.

(** ... and the REQUEST built from an ADVERTISE carries the advertised client id, server id and IA_NA *)
Theorem C13_v6_request_fields : forall xid adv req, new_request_from_advertise xid adv = Ok req ->
  exists axid os cid sid iana rest, adv = Msg 2 axid os /\
    get_one 1 os = Some cid /\ get_one 2 os = Some sid /\ get_one 3 os = Some iana /\
    req = Msg 3 xid ([cid; sid; OElapsed 0; iana] ++ rest) /\
    rest = (match get_one 25 os with Some pd => [pd] | None => [] end) ++ [oro_default] ++
           (match get_one 16 os with Some vc => [vc] | None => [] end).
Proof. exact request_fields. Qed.
Print Assumptions C13_v6_request_fields.
