// Correspondence harness: generates cases, runs the real library on them,
// runs the direct (model-independent) oracles, and writes everything to a
// directory for the check script, which feeds the same cases to the
// extracted Coq model and compares.
package main

import (
	"bytes"
	"bufio"
	"encoding/hex"
	"encoding/json"
	"fmt"
	"math/rand"
	"os"
	"path/filepath"
	"sort"
	"strconv"
	"strings"
	"sync"
)

// Case is one call of a modelled entry point.
type Case struct {
	Entry int
	Args  [][]byte
}

func hx(b []byte) string {
	if len(b) == 0 {
		return "-"
	}
	return hex.EncodeToString(b)
}

func (c Case) Line() string {
	var sb strings.Builder
	fmt.Fprintf(&sb, "%d", c.Entry)
	for _, a := range c.Args {
		sb.WriteByte(' ')
		sb.WriteString(hx(a))
	}
	return sb.String()
}

// EntryFn runs the real library; outs are the projected observables.
type EntryFn func(args [][]byte) (outs [][]byte, err error)

var entries = map[int]EntryFn{}
var entryNames = map[int]string{}

func register(id int, name string, f EntryFn) {
	if _, dup := entryNames[id]; dup {
		panic("duplicate entry")
	}
	entries[id] = f
	entryNames[id] = name
}

// RunGo evaluates a case on the real code; result in the driver's format.
func RunGo(c Case) (res string) {
	defer func() {
		if r := recover(); r != nil {
			res = "panic"
		}
	}()
	if c.Entry == eV4Accessor || c.Entry == 90 || c.Entry == 91 {
		outs, ok := goRes[c.Line()]
		if !ok {
			return "err"
		}
		var sb strings.Builder
		sb.WriteString("ok")
		for _, o := range outs {
			sb.WriteByte(' ')
			sb.WriteString(hx(o))
		}
		return sb.String()
	}
	f, ok := entries[c.Entry]
	if !ok {
		return "err"
	}
	// callee must never see the generator's own slices
	args := make([][]byte, len(c.Args))
	for i, a := range c.Args {
		args[i] = append([]byte{}, a...)
	}
	outs, err := f(args)
	for i := range args {
		// no entry point writes into its input (a write past the end of an inner value lands in the octets that
		// follow it in the datagram, and shows up here as a changed input)
		if !bytes.Equal(args[i], c.Args[i]) {
			return "input-modified"
		}
	}
	if err != nil {
		return "err"
	}
	var sb strings.Builder
	sb.WriteString("ok")
	for _, o := range outs {
		sb.WriteByte(' ')
		sb.WriteString(hx(o))
	}
	return sb.String()
}

// OracleFailure is a property failure observed on the real code alone.
type OracleFailure struct {
	Property string `json:"property"`
	Clause   string `json:"clause"`
	Case     string `json:"case"`
	Detail   string `json:"detail"`
	Key      string `json:"key,omitempty"` // known-finding key when the failure matches one
}

// Run collects what a property run produces.
type Run struct {
	Prop     string
	Tier     string
	Seed     int64
	Rng      *rand.Rand
	cases    []Case
	seen     map[string]bool
	Failures []OracleFailure
	Hist     map[string]int
	Samples  []string
	Extra    map[string]interface{}
	OracleN  int
}

func NewRun(prop, tier string, seed int64) *Run {
	return &Run{Prop: prop, Tier: tier, Seed: seed, Rng: rand.New(rand.NewSource(seed)),
		seen: map[string]bool{}, Hist: map[string]int{}, Extra: map[string]interface{}{}}
}

func (r *Run) Thorough() bool { return r.Tier == "thorough" }

// N picks a count by tier.
func (r *Run) N(quick, thorough int) int {
	if r.Thorough() {
		return thorough
	}
	return quick
}

// Add a case (deduplicated).
func (r *Run) Add(entry int, args ...[]byte) {
	c := Case{entry, args}
	l := c.Line()
	if r.seen[l] {
		return
	}
	r.seen[l] = true
	r.cases = append(r.cases, c)
}

func (r *Run) Count(key string) { r.Hist[key]++ }

func (r *Run) Fail(clause string, c string, detail string) {
	r.OracleN++
	if len(r.Failures) < 50 {
		r.Failures = append(r.Failures, OracleFailure{Property: r.Prop, Clause: clause, Case: c, Detail: detail})
	}
}

func (r *Run) FailKey(key, clause string, c string, detail string) {
	r.OracleN++
	if len(r.Failures) < 50 {
		r.Failures = append(r.Failures, OracleFailure{Property: r.Prop, Clause: clause, Case: c, Detail: detail, Key: key})
	}
}

func (r *Run) Bytes(n int) []byte {
	b := make([]byte, n)
	for i := range b {
		b[i] = byte(r.Rng.Intn(256))
	}
	return b
}

func (r *Run) Pick(xs ...int) int { return xs[r.Rng.Intn(len(xs))] }

// Write runs every case on the real code and writes the files.
func (r *Run) Write(dir string) error {
	if err := os.MkdirAll(dir, 0o755); err != nil {
		return err
	}
	cf, err := os.Create(filepath.Join(dir, "cases.txt"))
	if err != nil {
		return err
	}
	gf, err := os.Create(filepath.Join(dir, "go.txt"))
	if err != nil {
		return err
	}
	cw, gw := bufio.NewWriterSize(cf, 1<<20), bufio.NewWriterSize(gf, 1<<20)
	classes := map[string]int{}
	perEntry := map[string]int{}
	nontrivial := 0
	for i, c := range r.cases {
		line := c.Line()
		res := RunGo(c)
		cw.WriteString(line)
		cw.WriteByte('\n')
		gw.WriteString(res)
		gw.WriteByte('\n')
		cls := res
		if strings.HasPrefix(res, "ok") {
			cls = "ok"
			if len(res) > 4 {
				nontrivial++
			}
		}
		classes[entryNames[c.Entry]+":"+cls]++
		perEntry[entryNames[c.Entry]]++
		if i%(len(r.cases)/5+1) == 0 && len(r.Samples) < 8 {
			r.Samples = append(r.Samples, entryNames[c.Entry]+" "+line+" => "+trunc(res, 160))
		}
	}
	cw.Flush()
	gw.Flush()
	cf.Close()
	gf.Close()
	// the modelled entry points are functions of their arguments: running a sample of the cases again, in reverse
	// order and after all the others, must give the same results (no state carried from call to call)
	if len(r.cases) > 0 {
		first := make([]string, 0, 2048)
		idx := make([]int, 0, 2048)
		stride := len(r.cases)/2000 + 1
		for i := len(r.cases) - 1; i >= 0; i -= stride {
			e := r.cases[i].Entry
			if e >= 70 && e < 100 { // scenarios under virtual time are not replayed
				continue
			}
			idx = append(idx, i)
			first = append(first, RunGo(r.cases[i]))
		}
		for k := len(idx) - 1; k >= 0; k-- {
			if again := RunGo(r.cases[idx[k]]); again != first[k] {
				r.Fail("result-depends-on-earlier-calls", trunc(r.cases[idx[k]].Line(), 1500),
					"the same call gave another result when repeated after other calls: "+firstDiff(first[k], again))
				break
			}
		}
	}
	// ... and they are functions of their arguments also when several goroutines call them at once (a server with one
	// loop per interface, a pool of workers decoding): a sample of the cases, run on 8 goroutines at the same time,
	// each in its own order, gives the results the calls give one after another
	if len(r.cases) > 0 {
		var idx []int
		stride := len(r.cases)/4000 + 1
		for i := 0; i < len(r.cases); i += stride {
			if e := r.cases[i].Entry; e < 70 && e != eV4Accessor {
				idx = append(idx, i)
			}
		}
		if len(idx) > 1 {
			want := make([]string, len(idx))
			for k, i := range idx {
				want[k] = RunGo(r.cases[i])
			}
			type diff struct{ k int; got string }
			found := make(chan diff, 16)
			var wg sync.WaitGroup
			for g := 0; g < 8; g++ {
				wg.Add(1)
				go func(g int) {
					defer wg.Done()
					for round := 0; round < 2; round++ {
						for j := range idx {
							k := (j*(2*g+1) + g*len(idx)/8 + round) % len(idx)
							if got := RunGo(r.cases[idx[k]]); got != want[k] {
								select {
								case found <- diff{k, got}:
								default:
								}
								return
							}
						}
					}
				}(g)
			}
			wg.Wait()
			select {
			case d := <-found:
				r.Fail("result-depends-on-concurrent-calls", trunc(r.cases[idx[d.k]].Line(), 1500),
					"the same call gave another result while other goroutines were making other calls: "+firstDiff(want[d.k], d.got))
			default:
			}
		}
	}
	keys := make([]string, 0, len(r.Hist))
	for k := range r.Hist {
		keys = append(keys, k)
	}
	sort.Strings(keys)
	st := map[string]interface{}{
		"property": r.Prop, "tier": r.Tier, "seed": r.Seed,
		"cases": len(r.cases), "nontrivial": nontrivial,
		"classes": classes, "per_entry": perEntry, "histogram": r.Hist,
		"samples": r.Samples, "oracle_failures": r.OracleN, "failures": r.Failures, "extra": r.Extra,
	}
	js, _ := json.MarshalIndent(st, "", " ")
	return os.WriteFile(filepath.Join(dir, "stats.json"), js, 0o644)
}

func trunc(s string, n int) string {
	if len(s) > n {
		return s[:n] + "..."
	}
	return s
}

var props = map[string]func(r *Run){}

func main() {
	if len(os.Args) < 5 {
		fmt.Fprintln(os.Stderr, "usage: harness <prop> <tier> <seed> <outdir> | harness replay <caseline>")
		os.Exit(2)
	}
	if os.Args[1] == "busylink" {
		// harness busylink x x <n>
		n, _ := strconv.Atoi(os.Args[4])
		os.Exit(runBusyLink(n))
	}
	if os.Args[1] == "probe" {
		// harness probe x x <outfile>
		if err := runProbe(os.Args[4]); err != nil {
			fmt.Fprintln(os.Stderr, err)
			os.Exit(2)
		}
		return
	}
	if os.Args[1] == "replay" {
		// harness replay x x x "<entry> <hex> ..."
		c, err := parseCase(os.Args[4])
		if err != nil {
			fmt.Fprintln(os.Stderr, err)
			os.Exit(2)
		}
		fmt.Println(RunGo(c))
		return
	}
	prop, tier := os.Args[1], os.Args[2]
	var seed int64
	fmt.Sscan(os.Args[3], &seed)
	gen, ok := props[prop]
	if !ok {
		fmt.Fprintln(os.Stderr, "unknown property", prop)
		os.Exit(2)
	}
	r := NewRun(prop, tier, seed)
	gen(r)
	if err := r.Write(os.Args[4]); err != nil {
		fmt.Fprintln(os.Stderr, err)
		os.Exit(2)
	}
}

func parseCase(s string) (Case, error) {
	f := strings.Fields(s)
	var c Case
	if len(f) == 0 {
		return c, fmt.Errorf("empty case")
	}
	fmt.Sscan(f[0], &c.Entry)
	for _, a := range f[1:] {
		if a == "-" {
			c.Args = append(c.Args, []byte{})
			continue
		}
		b, err := hex.DecodeString(a)
		if err != nil {
			return c, err
		}
		c.Args = append(c.Args, b)
	}
	return c, nil
}
