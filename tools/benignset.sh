#!/bin/bash
# benignset.sh <dir-with-N.diff> : apply all patches of one set together (those that combine), run all quick checks,
# undo; patches that do not combine are run alone.  On an alarm the set is re-run patch by patch for the alarmed checks.
cd "$(dirname "$0")/.."
d=$(realpath "$1")
git -C /repo status --short | grep -q . && { echo "repo not clean"; exit 2; }
together=(); alone=()
for p in $d/[0-9]*.diff; do
  if git -C /repo apply "$p" 2>/dev/null; then together+=("$p"); else alone+=("$p"); fi
done
echo "together: ${together[*]}  alone: ${alone[*]}"
alarms=""
for i in $(seq -w 1 20); do
  out=$(./check C$i 2>&1 | tail -1)
  case "$out" in OK*) ;; *) echo "ALARM C$i: $out"; alarms="$alarms C$i";; esac
done
git -C /repo checkout -- . ; git -C /repo clean -fdq
if [ -n "$alarms" ]; then
  for p in "${together[@]}"; do tools/benigntest.sh "$p" $alarms; done
fi
for p in "${alone[@]}"; do tools/benigntest.sh "$p"; done
[ -z "$alarms" ] && echo "no alarm: set $d"
