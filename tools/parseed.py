#!/usr/bin/env python3
"""Parallel regression over the seeded changes (same verdicts as tools/seedtest.py, N at a time).

Each worker gets its own scratch copy of /verif (without .git, replays, seeded) and its own detached
git worktree of /repo under /tmp, applies one seeded patch at a time to ITS worktree, runs ITS copy of
`check <property> --repo <its worktree>` (plus the properties in meta.json "also_check"), and undoes
the patch.  /repo's working tree and /verif's build directory are never touched, so the registered
checks and the committed evidence still come from /verif run against /repo itself; this tool only
answers "is every stored change still detected".  Results go to seeded/<id>/result.json; scratch
copies and worktrees are removed at the end.

usage: tools/parseed.py [-j N] [id ...]
"""
import json, os, subprocess, sys, re, time, shutil, threading, queue

ROOT = os.path.dirname(os.path.dirname(os.path.abspath(__file__)))
SEED = os.path.join(ROOT, "seeded")
REPO = "/repo"


def sh(cmd, **kw):
    p = subprocess.run(cmd, stdout=subprocess.PIPE, stderr=subprocess.STDOUT, text=True, **kw)
    return p.returncode, p.stdout


def worker(i, q, lock):
    inst, repo = "/tmp/pv%d" % i, "/tmp/pr%d" % i
    shutil.rmtree(inst, ignore_errors=True)
    sh(["git", "-C", REPO, "worktree", "remove", "--force", repo])
    sh(["rsync", "-a", "--exclude", ".git", "--exclude", "replays", "--exclude", "seeded", "--exclude", "benign", ROOT + "/", inst + "/"])
    rc, out = sh(["git", "-C", REPO, "worktree", "add", "--detach", repo, "HEAD"])
    if rc != 0:
        print("worker", i, "cannot create worktree:", out)
        return
    try:
        while True:
            try:
                sid = q.get_nowait()
            except queue.Empty:
                break
            d = os.path.join(SEED, sid)
            meta = json.load(open(os.path.join(d, "meta.json")))
            prop = meta.get("property") or sid.split("-")[0]
            props = [prop] + meta.get("also_check", [])
            rc, out = sh(["git", "-C", repo, "apply", os.path.join(d, "patch.diff")])
            if rc != 0:
                with lock:
                    print(sid, "patch does not apply:", out, flush=True)
                continue
            res = {}
            try:
                for p in props:
                    t0 = time.time()
                    rc, out = sh([os.path.join(inst, "check"), p, "--tier", "quick", "--seed", "1", "--repo", repo], cwd=inst)
                    line = [l for l in out.splitlines() if l.startswith(("VIOLATION", "OK", "KNOWN"))]
                    rep = None
                    m = re.search(r"replay=(\S+)", out)
                    if m and os.path.exists(os.path.join(inst, m.group(1))):
                        r = json.load(open(os.path.join(inst, m.group(1))))
                        rep = {k: (str(r.get(k))[:300]) for k in ("kind", "clause", "input", "case", "theorem_or_lemma", "what") if r.get(k) is not None}
                    res[p] = {"rc": rc, "line": (line[-1] if line else out[-300:]).replace(inst, ROOT), "replay": rep, "wall_s": round(time.time() - t0, 1)}
                    with lock:
                        print(sid, p, rc, res[p]["line"], flush=True)
            finally:
                sh(["git", "-C", repo, "checkout", "--", "."])
                sh(["git", "-C", repo, "clean", "-fdq"])
            rp = os.path.join(d, "result.json")
            old = {}
            if os.path.exists(rp):
                old = json.load(open(rp)).get("checks", {})
            old.update(res)
            json.dump({"seed": sid, "property": prop, "checks": old,
                       "caught_by": sorted(p for p, r in old.items() if r["rc"] == 1)}, open(rp, "w"), indent=1)
    finally:
        sh(["git", "-C", REPO, "worktree", "remove", "--force", repo])
        shutil.rmtree(inst, ignore_errors=True)


def main():
    args = sys.argv[1:]
    n = 6
    if "-j" in args:
        k = args.index("-j")
        n = int(args[k + 1])
        del args[k:k + 2]
    ids = args or sorted(d for d in os.listdir(SEED) if os.path.isdir(os.path.join(SEED, d)))
    q = queue.Queue()
    for s in ids:
        q.put(s)
    lock = threading.Lock()
    ts = [threading.Thread(target=worker, args=(i, q, lock)) for i in range(min(n, len(ids)))]
    for t in ts:
        t.start()
    for t in ts:
        t.join()
    sh(["git", "-C", REPO, "worktree", "prune"])
    sys.path.insert(0, os.path.join(ROOT, "tools"))
    import seedtest
    seedtest.readme()
    return 0


if __name__ == "__main__":
    sys.exit(main())
