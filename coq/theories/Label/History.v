(** C19 over histories: a label set goes through any sequence of edits of its exported name list
    (Go: assignments to, or in-place writes into, [Labels.Labels]); encodings taken in between do not
    change the value (ToBytes and Length have no effect on the model's state, and must have none on the
    implementation's).  Whatever the history, the encoding is a function of the received octets and the
    CURRENT names only: the received octets while the names are exactly the received ones, the fresh
    encoding of the current names otherwise. *)
From DV Require Import Base.Bytes Label.Model Label.RoundTrip.

Definition set_names (l : labels) (ns : list bytes) : labels := mkLabels (original l) ns.
Definition edit_run (l : labels) (eds : list (list bytes)) : labels := fold_left set_names eds l.

Lemma edit_run_original l eds : original (edit_run l eds) = original l.
Proof. revert l. induction eds as [|e eds IH]; intros l; cbn [edit_run fold_left]; [reflexivity|]. unfold edit_run in IH. rewrite IH. reflexivity. Qed.

Lemma last_cons_indep {A} (x : A) l d d' : List.last (x :: l) d = List.last (x :: l) d'.
Proof. revert x. induction l as [|y l IH]; intros x; [reflexivity|]. change (List.last (y :: l) d = List.last (y :: l) d'). apply IH. Qed.

Lemma edit_run_names l eds : names (edit_run l eds) = List.last eds (names l).
Proof.
  revert l. induction eds as [|e eds IH]; intros l; [reflexivity|].
  change (edit_run l (e :: eds)) with (edit_run (set_names l e) eds). rewrite IH. cbn [set_names names].
  destruct eds as [|e2 eds]; [reflexivity|]. change (List.last (e :: e2 :: eds) (names l)) with (List.last (e2 :: eds) (names l)).
  apply last_cons_indep.
Qed.

Theorem reencode_after_edits b l eds : labels_from (Some b) = Ok l ->
  labels_to (edit_run l eds) =
    if same (names l) (names (edit_run l eds)) then Some b else Some (labels_to_bytes (names (edit_run l eds))).
Proof.
  intros H. pose proof (edit_run_original l eds) as O.
  unfold labels_from in H. destruct (labels_from_bytes b) as [ns| | |] eqn:E; cbn [bind] in H; try discriminate.
  injection H as <-. cbn [original names] in *.
  unfold labels_to. rewrite O. rewrite E. reflexivity.
Qed.

Theorem encode_fresh_after_edits ns eds :
  labels_to (edit_run (mkLabels None ns) eds) = Some (labels_to_bytes (names (edit_run (mkLabels None ns) eds))).
Proof.
  pose proof (edit_run_original (mkLabels None ns) eds) as O. cbn [original] in O.
  destruct (edit_run (mkLabels None ns) eds) as [o n] eqn:R. cbn [original names] in *. subst o. apply encode_fresh.
Qed.

(** in particular only the last edit matters *)
Corollary reencode_last_edit_only b l eds1 eds2 e : labels_from (Some b) = Ok l ->
  labels_to (edit_run l (eds1 ++ [e])) = labels_to (edit_run l (eds2 ++ [e])).
Proof.
  intros H. rewrite !(reencode_after_edits b l _ H), !edit_run_names, !last_last. reflexivity.
Qed.
