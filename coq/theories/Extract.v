(** Extraction of the executable model for the correspondence driver.
    ExtrOcamlBasic only: bool, option, unit, list, prod, sumbool map to
    OCaml's; nat, N, Z, positive, byte stay as extracted datatypes. *)
From Coq Require Import Extraction ExtrOcamlBasic.
From DV Require Import Run.
Extraction Language OCaml.
Extraction "model.ml" Run.run.
