(** C08: ownership of decoded values.  Provenance semantics of the Lexer
    primitives the decoders are written with: a byte-string leaf of a decoded
    value is either [Owned] (a private copy) or a [View] into the caller's
    buffer.  Observing a value after the buffer has been overwritten means
    reading its views from the *new* buffer contents. *)
From DV Require Import Base.Bytes.
From Coq Require Import String.

Inductive leaf := Owned (l : bytes) | View (off len : nat).

(** the value a leaf denotes given the current contents of the source buffer *)
Definition resolve (buf : bytes) (x : leaf) : bytes :=
  match x with Owned l => l | View off len => slice buf off len end.

(** a decoded value, as far as memory is concerned: a tree of leaves *)
Inductive pval := PLeaf (x : leaf) | PNode (children : list pval).

Fixpoint presolve (buf : bytes) (v : pval) : list bytes :=
  match v with
  | PLeaf x => [resolve buf x]
  | PNode cs => flat_map (presolve buf) cs
  end.

Fixpoint owns (v : pval) : Prop :=
  match v with
  | PLeaf (Owned _) => True
  | PLeaf (View _ _) => False
  | PNode cs => (fix all (l : list pval) : Prop := match l with [] => True | x :: r => owns x /\ all r end) cs
  end.

(** the Lexer primitives by what they hand to the decoder *)
Inductive prim :=
| PCopyN        (* buf.CopyN(n): copy *)
| PReadAll      (* buf.ReadAll(): copy *)
| PReadBytes    (* buf.ReadBytes(p): copy into p *)
| PReadInt      (* buf.Read8/16/32/64(): a number *)
| PAppendNil    (* append([]byte(nil), x...): copy *)
| PString       (* string(x): copy *)
| PClone        (* bytes.Clone(x): copy *)
| PConsume      (* buf.Consume(n): a view *)
| PParam.       (* the parameter itself or a sub-slice / slice-typed conversion of it: a view *)

Definition prim_copies (p : prim) : bool :=
  match p with PConsume | PParam => false | _ => true end.

(** what a primitive applied at buffer position [off] to [len] octets yields *)
Definition prim_leaf (p : prim) (buf : bytes) (off len : nat) : leaf :=
  if prim_copies p then Owned (slice buf off len) else View off len.

(** a value all of whose leaves were produced by copying primitives denotes
    the same thing whatever is later written into the buffer *)
Lemma owns_children cs :
  (fix all (l : list pval) : Prop := match l with [] => True | x :: r => owns x /\ all r end) cs <-> Forall owns cs.
Proof.
  induction cs as [|x r IH]; [split; constructor|]. rewrite IH.
  split; [intros [A B]; constructor; assumption | intros H; inversion H; auto].
Qed.

Theorem owned_value_independent : forall v, owns v -> forall buf buf', presolve buf v = presolve buf' v.
Proof.
  fix IH 1. intros [x|cs] H buf buf'.
  - destruct x; [reflexivity | contradiction].
  - cbn [presolve]. cbn [owns] in H. apply owns_children in H.
    induction cs as [|c cs IHcs]; [reflexivity|]. inversion H as [|? ? Hc Hcs]; subst.
    cbn [flat_map]. rewrite (IH c Hc buf buf'), (IHcs Hcs). reflexivity.
Qed.

Theorem copying_prim_owns p buf off len : prim_copies p = true -> owns (PLeaf (prim_leaf p buf off len)).
Proof. intros H. unfold prim_leaf. rewrite H. exact I. Qed.

(** a view does depend on the buffer: the contract is not vacuous *)
Example view_depends :
  presolve [x01; x02; x03] (PLeaf (View 1 2)) <> presolve [x01; xff; xff] (PLeaf (View 1 2)).
Proof. cbn. discriminate. Qed.
