(** C10, transaction ids reused over time: the registry entry of ONE id across successive calls
    ("generations").  The hand-over of each generation is the machine of Client/Delivery.v; on
    top of it: registration under the id (refused while an entry exists; it cannot even be
    attempted while the receive loop is parked on a full buffer, because the loop holds the
    registry lock across that blocking send), and removal of the entry - by the loop, when it
    finds the call gone, or by the call's own cancel.

    What is proved for every sequence of events: an entry is only ever removed for a call that is
    over; a registered call that is still waiting loses nothing; the loop is never parked on
    behalf of a call other than the one registered; a new call starts with an empty channel. *)
From Coq Require Import List Arith Lia Bool.
Import ListNotations.
From DV Require Import Client.Delivery.

Record rstate := mkR {
  r_pending : option nat;          (* generation registered under the id *)
  r_ch : chan;                     (* hand-over state of the latest generation *)
  r_gen : nat;                     (* number of the next generation *)
  r_removed : list (nat * bool);   (* ghost: generation whose entry was removed, and whether its call was over then *)
  r_refused : nat                  (* ghost: registrations refused (id in use) *)
}.

Inductive rop :=
| RReg              (* a call tries to register under the id *)
| REv (e : dev)     (* an event of the registered generation: the loop reads a datagram for the id, the call receives, the call gives up *)
| RUnreg.           (* the call's cancel removes its own entry (after it gave up) *)

Definition rinit : rstate := mkR None dinit 0 [] 0.

Definition rstep (s : rstate) (e : rop) : rstate :=
  match e with
  | RReg =>
    match r_pending s with
    | Some _ => mkR (r_pending s) (r_ch s) (r_gen s) (r_removed s) (S (r_refused s))   (* ErrTransactionIDInUse *)
    | None => mkR (Some (r_gen s)) dinit (S (r_gen s)) (r_removed s) (r_refused s)
    end
  | REv ev =>
    match r_pending s with
    | None => s                                  (* nobody registered: a datagram for the id is dropped *)
    | Some g =>
      let c' := dstep (r_ch s) ev in
      if d_closed c'
      then mkR None c' (r_gen s) ((g, d_done c') :: r_removed s) (r_refused s)     (* the loop took the done case *)
      else mkR (Some g) c' (r_gen s) (r_removed s) (r_refused s)
    end
  | RUnreg =>
    match r_pending s with
    | Some g =>
      match d_held (r_ch s) with
      | Some _ => s                              (* the loop holds the lock: cancel waits *)
      | None => if d_done (r_ch s)
                then mkR None (r_ch s) (r_gen s) ((g, true) :: r_removed s) (r_refused s)
                else s                           (* cancel only runs after the call gave up *)
      end
    | None => s
    end
  end.

Definition rrun (l : list rop) : rstate := fold_left rstep l rinit.

Record RInv (s : rstate) : Prop := {
  rinv_ch : DInv (r_ch s);
  rinv_open : r_pending s <> None -> d_closed (r_ch s) = false;
  rinv_removed : Forall (fun gb => snd gb = true) (r_removed s);
  rinv_gen : match r_pending s with Some g => g < r_gen s | None => True end
}.

Lemma RInv_init : RInv rinit.
Proof. constructor; cbn; auto using DInv_init; try congruence. Qed.

Lemma rstep_inv s e : RInv s -> RInv (rstep s e).
Proof.
  intros [C O R G].
  assert (Keep : RInv s) by (constructor; assumption).
  destruct e as [|ev|]; cbn [rstep].
  - destruct (r_pending s) as [g|] eqn:P.
    + constructor; cbn [r_pending r_ch r_gen r_removed r_refused];
        [exact C | intros _; apply O; congruence | exact R | exact G].
    + constructor; cbn [r_pending r_ch r_gen r_removed r_refused];
        [exact DInv_init | intros _; reflexivity | exact R | lia].
  - destruct (r_pending s) as [g|] eqn:P; [|exact Keep].
    pose proof (dstep_inv _ ev C) as C'.
    destruct (d_closed (dstep (r_ch s) ev)) eqn:K.
    + constructor; cbn [r_pending r_ch r_gen r_removed r_refused];
        [exact C' | congruence | | exact I].
      constructor; [|exact R]. cbn [snd]. apply (dinv_closed _ C' K).
    + constructor; cbn [r_pending r_ch r_gen r_removed r_refused];
        [exact C' | intros _; exact K | exact R | exact G].
  - destruct (r_pending s) as [g|] eqn:P; [|exact Keep].
    destruct (d_held (r_ch s)) eqn:H; [exact Keep|].
    destruct (d_done (r_ch s)) eqn:D; [|exact Keep].
    constructor; cbn [r_pending r_ch r_gen r_removed r_refused];
      [exact C | congruence | | exact I].
    constructor; [reflexivity | exact R].
Qed.

Theorem rrun_inv l : RInv (rrun l).
Proof.
  unfold rrun. rewrite <- (rev_involutive l). induction (rev l) as [|e l' IH]; cbn [rev]; [exact RInv_init|].
  rewrite fold_left_app. cbn [fold_left]. apply rstep_inv. exact IH.
Qed.

(** an entry is only ever removed - by the loop or by the call's cancel - for a call that is over *)
Theorem removed_only_when_over l : Forall (fun gb => snd gb = true) (r_removed (rrun l)).
Proof. exact (rinv_removed _ (rrun_inv l)). Qed.

(** a registered call that is still waiting has lost nothing: what was read for it is what it received,
    then what is queued, then what the parked loop holds *)
Theorem registered_call_loses_nothing l : let s := rrun l in
  r_pending s <> None -> d_done (r_ch s) = false ->
  d_arr (r_ch s) = d_got (r_ch s) ++ d_buf (r_ch s) ++ held_list (r_ch s).
Proof.
  intros s P D. pose proof (rrun_inv l) as I. apply (dinv_all _ (rinv_ch _ I)). apply (rinv_open _ I). exact P.
Qed.

(** while the loop is parked on a datagram the call it is parked for is the registered one and is still
    waiting; so no other call can have taken the id (registration is refused while an entry exists) *)
Theorem parked_for_the_registered_call l m : let s := rrun l in
  r_pending s <> None -> d_held (r_ch s) = Some m -> d_done (r_ch s) = false /\ length (d_buf (r_ch s)) = dcap.
Proof.
  intros s P H. pose proof (rrun_inv l) as I.
  assert (Hn : d_held (r_ch (rrun l)) <> None) by (fold s; rewrite H; discriminate).
  destruct (dinv_held _ (rinv_ch _ I) Hn) as (A & B & _). auto.
Qed.

(** a successful registration starts from an empty channel under a new generation number *)
Theorem registration_is_fresh s : r_pending s = None ->
  let s' := rstep s RReg in r_pending s' = Some (r_gen s) /\ r_ch s' = dinit /\ r_gen s' = S (r_gen s).
Proof. intros P. cbn [rstep]. rewrite P. cbn. auto. Qed.

Theorem registration_refused_while_registered s g : r_pending s = Some g ->
  let s' := rstep s RReg in r_pending s' = Some g /\ r_ch s' = r_ch s /\ r_refused s' = S (r_refused s).
Proof. intros P. cbn [rstep]. rewrite P. cbn. auto. Qed.

(** the scenario the harness runs on both clients (entries 76, 77): call A's matcher is held on the first of seven
    datagrams (one in the matcher, five queued, one the loop is parked on); A accepts the first and returns;
    call B registers the same id at once; B's answer arrives.  Result: what A and B received. *)
Definition reuse_scenario (ps : list nat) (pb : nat) : list nat * list nat * option nat :=
  let a := fold_left rstep
             (RReg :: match ps with
                      | [] => []
                      | p :: r => REv (DRead p false) :: REv (DRecv false) :: map (fun q => REv (DRead q false)) r
                      end ++ [REv DDone; RUnreg]) rinit in
  let b := fold_left rstep [RReg; REv (DRead pb false); REv (DRecv false)] a in
  (d_got (r_ch a), d_got (r_ch b), r_pending b).
