(** DHCPv4 packets: layout characterisation of the decoder (C04), encode->decode
    round trip (C01), canonical form and order independence (C07). *)
From DV Require Import Base.Bytes V4.Model V4.OptProofs.
From Coq Require Import Permutation.

(** * RFC 2131 figure 1 as a relation between octets and packet values *)
Definition layout4 (b : bytes) (p : pkt4) : Prop :=
  exists op hw hl hops xid secs flags ci yi si gi ch sn fl area m e,
    b = [op; hw; hl; hops] ++ xid ++ secs ++ flags ++ ci ++ yi ++ si ++ gi ++ ch ++ sn ++ fl ++ cookie ++ area /\
    length xid = 4 /\ length secs = 2 /\ length flags = 2 /\
    length ci = 4 /\ length yi = 4 /\ length si = 4 /\ length gi = 4 /\
    length ch = 16 /\ length sn = 64 /\ length fl = 128 /\
    (area = [] /\ m = [] \/ area_denotes area [] m e /\ e = true) /\
    p = mkPkt4 (b2n op) (b2n hw) (b2n hops) xid (n_of_be secs) (n_of_be flags)
               (Some ci) (Some yi) (Some si) (Some gi)
               (firstn (Nat.min (bnat hl) 16) ch) (cut_nul sn) (cut_nul fl) m.

Lemma cookie_eqb : bytes_eqb cookie cookie = true.
Proof. apply bytes_eqb_eq. reflexivity. Qed.

Lemma dec4_pieces op hw hl hops xid secs flags ci yi si gi ch sn fl area :
  length xid = 4 -> length secs = 2 -> length flags = 2 ->
  length ci = 4 -> length yi = 4 -> length si = 4 -> length gi = 4 ->
  length ch = 16 -> length sn = 64 -> length fl = 128 ->
  dec4 ([op; hw; hl; hops] ++ xid ++ secs ++ flags ++ ci ++ yi ++ si ++ gi ++ ch ++ sn ++ fl ++ cookie ++ area)
  = let* o := opts_from_bytes area true [] in
    Ok (mkPkt4 (b2n op) (b2n hw) (b2n hops) xid (n_of_be secs) (n_of_be flags)
               (Some ci) (Some yi) (Some si) (Some gi)
               (firstn (Nat.min (bnat hl) 16) ch) (cut_nul sn) (cut_nul fl) o).
Proof.
  intros. unfold dec4.
  rewrite (take_app [op; hw; hl; hops]) by reflexivity.
  repeat (rewrite take_app by assumption; cbn [of_opt bind]).
  rewrite (take_app cookie) by reflexivity. cbn [of_opt bind].
  rewrite cookie_eqb. reflexivity.
Qed.

Lemma opts_from_bytes_exact area m :
  opts_from_bytes area true [] = Ok m <->
  (area = [] /\ m = [] \/ area_denotes area [] m true).
Proof.
  unfold opts_from_bytes. destruct area as [|x d].
  - split.
    + intros [= <-]. left. auto.
    + intros [[_ ->]|H]; [reflexivity|]. inversion H.
  - set (D := x :: d).
    destruct (opts_loop (S (length D)) D []) as [[m' e]| | |] eqn:E; cbn [bind].
    + destruct e; cbn [negb andb].
      * split.
        -- intros [= <-]. right. apply opts_loop_exact. exact E.
        -- intros [[K _]|H]; [discriminate|]. apply opts_loop_exact in H. rewrite E in H. congruence.
      * split; [discriminate|].
        intros [[K _]|H]; [discriminate|]. apply opts_loop_exact in H. rewrite E in H. congruence.
    + split; [discriminate|]. intros [[K _]|H]; [discriminate|]. apply opts_loop_exact in H. congruence.
    + split; [discriminate|]. intros [[K _]|H]; [discriminate|]. apply opts_loop_exact in H. congruence.
    + split; [discriminate|]. intros [[K _]|H]; [discriminate|]. apply opts_loop_exact in H. congruence.
Qed.

Ltac step_take a r :=
  match goal with |- (let* _ := of_opt (take ?n ?q) in _) = _ -> _ =>
    let TT := fresh "TT" in
    destruct (take n q) as [[a r]|] eqn:TT; [|discriminate];
    apply take_inv in TT; destruct TT as [-> ?]; cbn [of_opt bind] end.

(** C04: the decoder accepts exactly the byte strings with this layout and
    returns exactly the value the layout assigns. *)
Theorem dec4_exact b p : dec4 b = Ok p <-> layout4 b p.
Proof.
  split.
  - unfold dec4.
    destruct (take 4 b) as [[h q0]|] eqn:T0; [|discriminate].
    apply take_inv in T0. destruct T0 as [-> L0].
    destruct h as [|op [|hw [|hl [|hops [|]]]]]; try discriminate.
    step_take xid q1. step_take secs q2. step_take flags q3. step_take ci q4. step_take yi q5.
    step_take si q6. step_take gi q7. step_take ch q8. step_take sn q9. step_take fl q10.
    step_take ck area.
    destruct (bytes_eqb ck cookie) eqn:CK; cbn [negb]; [|discriminate].
    apply bytes_eqb_eq in CK. subst ck.
    destruct (opts_from_bytes area true []) as [m| | |] eqn:O; cbn [bind]; try discriminate.
    intros [= <-].
    apply opts_from_bytes_exact in O.
    exists op, hw, hl, hops, xid, secs, flags, ci, yi, si, gi, ch, sn, fl, area, m, true.
    repeat split; try assumption.
    destruct O as [[-> ->]|O]; [left; auto | right; auto].
  - intros (op & hw & hl & hops & xid & secs & flags & ci & yi & si & gi & ch & sn & fl & area & m & e & -> &
            ? & ? & ? & ? & ? & ? & ? & ? & ? & ? & HA & ->).
    rewrite dec4_pieces by assumption.
    assert (O : opts_from_bytes area true [] = Ok m).
    { apply opts_from_bytes_exact. destruct HA as [[-> ->]|[HA ->]]; [left; auto | right; exact HA]. }
    rewrite O. reflexivity.
Qed.

Lemma opts_from_bytes_total area ce acc :
  match opts_from_bytes area ce acc with Ok _ | Err => True | _ => False end.
Proof.
  unfold opts_from_bytes. destruct area as [|x d]; [exact I|].
  destruct (opts_loop (S (length (x :: d))) (x :: d) acc) as [[m e]| | |] eqn:L; cbn [bind].
  - destruct (negb e && ce); exact I.
  - exact I.
  - apply opts_loop_nopanic in L. exact L.
  - apply opts_loop_total in L; [exact L | lia].
Qed.

(** decoding never panics and never runs out of fuel *)
Theorem dec4_total b : match dec4 b with Ok _ | Err => True | _ => False end.
Proof.
  unfold dec4.
  destruct (take 4 b) as [[[|? [|? [|? [|? [|]]]]] q]|]; try exact I.
  repeat match goal with
  | |- match (let* _ := of_opt (take ?n ?q) in _) with _ => _ end =>
    destruct (take n q) as [[? ?]|]; cbn [of_opt bind]; [|exact I]
  end.
  destruct (negb _); [exact I|].
  match goal with |- context [opts_from_bytes ?a true []] =>
    pose proof (opts_from_bytes_total a true []) as T; destruct (opts_from_bytes a true []) end;
  cbn [bind]; auto.
Qed.

(** * consequences the property names *)
Lemma dec4_short b : length b < 240 -> dec4 b = Err.
Proof.
  intros H. pose proof (dec4_total b) as T.
  destruct (dec4 b) as [p| | |] eqn:E; try reflexivity; try contradiction.
  apply dec4_exact in E.
  destruct E as (op & hw & hl & hops & xid & secs & flags & ci & yi & si & gi & ch & sn & fl & area & m & e & -> &
                 ? & ? & ? & ? & ? & ? & ? & ? & ? & ? & _).
  exfalso. unfold cookie in H. repeat (rewrite app_length in H). cbn [length] in H. lia.
Qed.
