(** C18: the raw IPv4/UDP framing of nclient4 (dhcpv4/nclient4/ipv4.go,
    conn_unix.go): udp4pkt with its checksums, and the body of
    BroadcastRawUDPConn.ReadFrom. *)
From DV Require Import Base.Bytes V4.Model.

(** sum of the big-endian 16-bit words of a byte string; an odd last octet is
    the high octet of a final word (calculateChecksum's loop) *)
Fixpoint wsum (b : bytes) : N :=
  match b with
  | [] => 0
  | [x] => b2n x * 256
  | x :: y :: r => b2n x * 256 + b2n y + wsum r
  end%N.

(** checksumCombine(uint16(v), uint16(v>>16)) for a uint32 accumulator *)
Definition fold32 (v : N) : N :=
  let v := (v mod 4294967296)%N in
  let s := (v mod 65536 + v / 65536)%N in
  ((s + s / 65536) mod 65536)%N.

(** checksum(buf, initial) *)
Definition cksum (buf : bytes) (initial : N) : N := fold32 (initial + wsum buf).

Definition compl16 (v : N) : N := (65535 - v mod 65536)%N.   (* ^v on uint16 *)

Record udpaddr := mkAddr { a_ip : goip; a_port : N }.

(** ip.To4() copied into a 4-octet field: nothing is copied when it is not an IPv4 address *)
Definition ip4_field (ip : goip) : bytes :=
  match ip with Some b => match to4 b with Some b4 => b4 | None => zeros 4 end | None => zeros 4 end.
Definition ip4_sum (ip : goip) : bytes :=
  match ip with Some b => match to4 b with Some b4 => b4 | None => [] end | None => [] end.

Definition ipv4_header (total : N) (ck : N) (src dst : goip) : bytes :=
  [n2b 69; x00] ++ be16 total ++ [x00; x00; x00; x00; n2b 64; n2b 17] ++ be16 ck ++ ip4_field src ++ ip4_field dst.

Definition udp_header (sport dport len ck : N) : bytes := be16 sport ++ be16 dport ++ be16 len ++ be16 ck.

(** udp4pkt(packet, dest, src) *)
Definition udp4pkt (payload : bytes) (dest src : udpaddr) : bytes :=
  let plen := N.of_nat (length payload) in
  let total := (28 + plen)%N in
  let ulen := (8 + plen)%N in
  let ipck := compl16 (cksum (ipv4_header total 0 (a_ip src) (a_ip dest)) 0) in
  let pseudo := cksum [x00; n2b 17] (cksum (ip4_sum (a_ip dest)) (cksum (ip4_sum (a_ip src)) 0)) in
  let xsum := cksum payload pseudo in
  let uck := compl16 (cksum (udp_header (a_port src) (a_port dest) ulen 0) (cksum (be16 (ulen mod 65536)) xsum)) in
  ipv4_header total ipck (a_ip src) (a_ip dest) ++ udp_header (a_port src) (a_port dest) ulen uck ++ payload.

(** * Reading *)

(** net.IP.Equal *)
Definition ip_equal (a b : bytes) : bool :=
  match to4 a, to4 b with
  | Some x, Some y => bytes_eqb x y
  | _, _ => (length a =? 16) && (length b =? 16) && bytes_eqb a b
  end.

(** udpMatch(addr, bound) *)
Definition udp_match (dst_ip : bytes) (dst_port : N) (bound : option udpaddr) : bool :=
  match bound with
  | None => true
  | Some b =>
    match a_ip b with
    | Some bip => if ip_equal bip dst_ip then (a_port b =? dst_port)%N else false
    | None => (a_port b =? dst_port)%N
    end
  end.

Inductive read_result := Skip | Deliver (payload : bytes) (src_ip : bytes) (src_port : N).

(** one iteration of ReadFrom's loop on one received frame; [blen] is len(b)
    of the caller's buffer, [n] the number of octets the socket returned *)
Definition read_frame (bound : option udpaddr) (blen : nat) (frame : bytes) : res read_result :=
  let pkt := firstn (60 + 8 + blen) frame in
  let n := length pkt in
  if n <? 20 then Ok Skip
  else
    let b0 := b2n (nth 0 pkt x00) in
    let hlen := N.to_nat ((b0 mod 16) * 4 mod 256) in
    let tlen := N.to_nat (rd16 (nth 2 pkt x00) (nth 3 pkt x00)) in
    if (hlen <? 20) || (tlen <? hlen) || (n <? tlen) then Ok Skip
    else if negb (b0 / 16 =? 4)%N then Ok Skip
    else if negb (b2n (nth 9 pkt x00) =? 17)%N then Ok Skip
    else
      let rest := skipn hlen pkt in
      if length rest <? 8 then Ok Skip
      else
        let dst_ip := slice pkt 16 4 in
        let dport := rd16 (nth 2 rest x00) (nth 3 rest x00) in
        if negb (udp_match dst_ip dport bound) then Ok Skip
        else
          let dhcp_len := (Z.of_nat tlen - Z.of_nat hlen - 8)%Z in
          if (dhcp_len <? 0)%Z then Ok Skip            (* the IP payload has no room for a UDP header *)
          else
            let data := firstn (Z.to_nat dhcp_len) (skipn 8 rest) in
            Ok (Deliver (firstn blen data) (slice pkt 12 4) (rd16 (nth 0 rest x00) (nth 1 rest x00))).

(** ReadFrom: skip frames until one is delivered; an empty read is io.EOF;
    when the underlying connection has nothing more, its error is returned *)
Inductive read_outcome := Delivered (p : bytes) (src_ip : bytes) (src_port : N) | EOF | ConnError.

Fixpoint read_from (bound : option udpaddr) (blen : nat) (frames : list bytes) : res (read_outcome * list bytes) :=
  match frames with
  | [] => Ok (ConnError, [])
  | f :: r =>
    match f with
    | [] => Ok (EOF, r)                              (* n == 0: io.EOF *)
    | _ =>
      let* x := read_frame bound blen f in
      match x with
      | Skip => read_from bound blen r
      | Deliver p s sp => Ok (Delivered p s sp, r)
      end
    end
  end.
