(** C09, retained size: the value the decoders return holds at most a fixed
    multiple of the input — for EVERY accepted byte string, any nesting.
    [osize] counts the octets of every field of a decoded value (byte strings
    by their length, numeric fields by their wire width, names by their length
    plus one, kept original bytes of a label set once) plus one per node. *)
From DV Require Import Base.Bytes Label.Model Label.RoundTrip Cost.Labels V4.Model V4.OptProofs V4.Proofs
                       V6.Model V6.Total V6.Wf V6.Comb V6.RoundTrip V6.Image V6.Fixpoint.

Arguments labels_from_bytes : simpl never.

(** * DHCPv4 *)
Fixpoint msize (m : optmap) : nat := match m with [] => 0 | (_, v) :: r => 1 + length v + msize r end.
Definition size4 (p : pkt4) : nat :=
  27 + length (p_chaddr p) + length (p_sname p) + length (p_file p) + msize (p_opts p).

Lemma msize_append acc c d : msize (append_opt acc c d) <= msize acc + 1 + length d.
Proof.
  induction acc as [|[k v] r IH]; cbn [append_opt msize]; [cbn [length]; lia|].
  destruct (beqb k c); cbn [msize]; [rewrite app_length; lia | lia].
Qed.

Lemma area_size d acc m e : area_denotes d acc m e -> msize m <= msize acc + length d.
Proof.
  induction 1 as [acc | r acc m e H IH | junk acc | c n data r acc m e G L H IH].
  - cbn [length]. lia.
  - cbn [length]. lia.
  - lia.
  - pose proof (msize_append acc c data). cbn [length]. rewrite app_length. lia.
Qed.

Lemma cut_nul_le s : length (cut_nul s) <= length s.
Proof.
  unfold cut_nul. induction s as [|x s IH]; cbn; [lia|]. destruct (beqb x x00); cbn [length]; lia.
Qed.

Theorem dec4_size b p : dec4 b = Ok p -> size4 p <= length b.
Proof.
  intros H. apply dec4_exact in H.
  destruct H as (op & hw & hl & hops & xid & secs & flags & ci & yi & si & gi & ch & sn & fl & area & o & e & -> &
                 Hxid & Hsecs & Hflags & Hci & Hyi & Hsi & Hgi & Hch & Hsn & Hfl & HA & ->).
  unfold size4. cbn [p_chaddr p_sname p_file p_opts].
  assert (MO : msize o <= length area).
  { destruct HA as [[-> ->]|[HA _]]; [cbn; lia|]. pose proof (area_size _ _ _ _ HA). cbn [msize] in *. lia. }
  pose proof (cut_nul_le sn). pose proof (cut_nul_le fl).
  rewrite firstn_length. rewrite !app_length. cbn [length]. unfold cookie. cbn [length].
  lia.
Qed.

(** * DHCPv6 *)
Definition lsize (l : labels) : nat := length (obytes (original l)) + total_len (names l) + length (names l).
Definition dsize (d : duid) : nat :=
  match d with
  | DLLT _ _ ll => 8 + length ll | DEN _ id => 6 + length id | DLL _ ll => 4 + length ll
  | DUUID u => 2 + length u | DOpaque _ x => 2 + length x
  end.
Definition nsize (s : ntpsub) : nat :=
  4 + match s with NSrv a | NMC a => length a | NFQDN l => lsize l | NGen _ d => length d end.
Definition items_size (l : list bytes) : nat := length (flat_map (fun c => len16 c ++ c) l).   (* 2 + length each *)
Fixpoint sum_size {A} (sz : A -> nat) (l : list A) : nat := match l with [] => 0 | x :: r => sz x + sum_size sz r end.

Fixpoint osize (o : opt6) : nat :=
  let all := fix all (l : list opt6) : nat := match l with [] => 0 | x :: r => osize x + all r end in
  4 + match o with
      | OClientID d | OServerID d => dsize d
      | OIANA iaid _ _ os | OIAPD iaid _ _ os => length iaid + 8 + all os
      | OIATA iaid os => length iaid + all os
      | OIAAddr a _ _ os => length a + 8 + all os
      | OORO cs | OArch cs => 2 * length cs
      | OElapsed _ | ORelayPort _ => 2
      | ORelayMsgM _ xid os => 1 + length xid + all os
      | ORelayMsgR _ _ l p os => 2 + length l + length p + all os
      | OStatus _ m => 2 + length m
      | OUserClass cls | OBootParam cls => items_size cls
      | OVendorClass _ ds => 4 + items_size ds
      | OVendorOpts _ subs => 4 + sum_size (fun s => 4 + length (snd s)) subs
      | OInterfaceID id | OBootURL id => length id
      | ODNS as_ | O4o6 as_ => length (concat as_)
      | ODomainList l => lsize l
      | OIAPrefix _ _ pre os => 9 + (match pre with Some (_, a) => length a | None => 0 end) + all os
      | OInfoRefresh _ | O4RDNonMap _ _ _ => 4
      | ORemoteID _ id => 4 + length id
      | OFQDN _ l => 1 + lsize l
      | ONTP subs => sum_size nsize subs
      | ONII _ _ _ => 3
      | OClientLL _ a => 2 + length a
      | ODHCPv4 p => size4 p
      | O4RD os => all os
      | O4RDMap _ _ _ _ p4 p6 => 4 + length p4 + length p6
      | OGeneric _ d => length d
      end.
Definition osizes (os : list opt6) : nat := sum_size osize os.
Definition msg_size (m : msg6) : nat :=
  match m with Msg _ xid os => 1 + length xid + osizes os | Relay _ _ l p os => 2 + length l + length p + osizes os end.

Lemma osize_nested os :
  (forall i t1 t2, osize (OIANA i t1 t2 os) = 4 + (length i + 8 + osizes os)) /\
  (forall i, osize (OIATA i os) = 4 + (length i + osizes os)) /\
  (forall a p v, osize (OIAAddr a p v os) = 4 + (length a + 8 + osizes os)) /\
  (forall t x, osize (ORelayMsgM t x os) = 4 + (1 + length x + osizes os)) /\
  (forall t h l p, osize (ORelayMsgR t h l p os) = 4 + (2 + length l + length p + osizes os)) /\
  (forall i t1 t2, osize (OIAPD i t1 t2 os) = 4 + (length i + 8 + osizes os)) /\
  (forall p v pre, osize (OIAPrefix p v pre os) = 4 + (9 + (match pre with Some (_, a) => length a | None => 0 end) + osizes os)) /\
  osize (O4RD os) = 4 + osizes os.
Proof.
  assert (E : (fix all (l : list opt6) : nat := match l with [] => 0 | x :: r => osize x + all r end) os = osizes os).
  { induction os as [|x r IH]; [reflexivity|]. unfold osizes. cbn [sum_size]. fold (osizes r). rewrite <- IH. reflexivity. }
  repeat split; intros; cbn [osize]; rewrite E; reflexivity.
Qed.

Lemma labels_lsize b l : dec_labels b = Ok l -> lsize l <= 255 * length b + 254.
Proof.
  unfold dec_labels, labels_from. intros H.
  destruct (labels_from_bytes b) as [ns| | |] eqn:E; cbn [bind] in H; try discriminate. injection H as <-.
  unfold lsize. cbn [original names obytes].
  pose proof (labels_total_size b ns E). destruct (labels_size b ns E) as [_ Hc]. lia.
Qed.

Lemma many_ip16_concat : forall f b xs, many_ip16 f b = Ok xs -> length (concat xs) = length b.
Proof.
  induction f as [|f IH]; intros b xs; cbn [many_ip16]; [discriminate|].
  destruct b as [|h r]; [intros [= <-]; reflexivity|].
  destruct (rd_n 16 (h :: r)) as [[x r']| | |] eqn:E; cbn [bind]; try discriminate.
  destruct (many_ip16 f r') as [ys| | |] eqn:E2; cbn [bind]; try discriminate.
  intros [= <-]. cbn [concat]. rewrite app_length, (IH _ _ E2).
  apply rd_n_len in E. lia.
Qed.

(** the TLV loop: children that are each within 4 + 256 (|value| + 1) add up to at most 256 |container| *)
Lemma tlv_loop_sizes {A} (parse : N -> bytes -> res A) (sz : A -> nat) :
  (forall c d v, u16 c -> short d -> parse c d = Ok v -> sz v <= 260 + 256 * length d) ->
  forall f b vals, tlv_loop parse f b = Ok vals -> sum_size sz vals <= 256 * length b.
Proof.
  intros HP. induction f as [|f IH]; intros b vals; cbn [tlv_loop]; [discriminate|].
  destruct b as [|c1 [|c2 [|l1 [|l2 r]]]]; try discriminate.
  - intros [= <-]. cbn. lia.
  - destruct (rd_n _ r) as [[v r']| | |] eqn:E0; cbn [bind]; try discriminate.
    destruct (parse (rd16 c1 c2) v) as [o| | |] eqn:E; cbn [bind]; try discriminate.
    destruct (tlv_loop parse f r') as [os| | |] eqn:L; cbn [bind]; try discriminate.
    intros [= <-]. cbn [sum_size].
    pose proof (rd_n_len _ _ _ _ E0) as (Lr & Lv & _).
    assert (Sv : short v) by (unfold short; rewrite Lv, N2Nat.id; apply rd16_lt).
    pose proof (HP _ _ _ (rd16_lt c1 c2) Sv E). pose proof (IH _ _ L). cbn [length]. lia.
Qed.

Lemma dec_duid_size data d : dec_duid data = Ok d -> dsize d <= length data.
Proof.
  unfold dec_duid. destruct (rd_u16 data) as [[typ r]| | |] eqn:E; cbn [bind]; try discriminate.
  apply rd_u16_len in E.
  destruct (N.eq_dec typ 1) as [->|N1].
  { destruct (rd_u16 r) as [[hw r']| | |] eqn:E1; cbn [bind]; try discriminate.
    destruct (rd_u32 r') as [[t r'']| | |] eqn:E2; cbn [bind]; try discriminate.
    intros [= <-]. apply rd_u16_len in E1. apply rd_u32_len in E2. cbn [dsize]. lia. }
  destruct (N.eq_dec typ 2) as [->|N2].
  { destruct (rd_u32 r) as [[en r']| | |] eqn:E1; cbn [bind]; try discriminate.
    intros [= <-]. apply rd_u32_len in E1. cbn [dsize]. lia. }
  destruct (N.eq_dec typ 3) as [->|N3].
  { destruct (rd_u16 r) as [[hw r']| | |] eqn:E1; cbn [bind]; try discriminate.
    intros [= <-]. apply rd_u16_len in E1. cbn [dsize]. lia. }
  destruct (N.eq_dec typ 4) as [->|N4].
  { destruct (length r =? 16) eqn:L; try discriminate. intros [= <-]. cbn [dsize]. lia. }
  assert (D : match typ with
              | 1 => let* (hw, r0) := rd_u16 r in let* (t, r1) := rd_u32 r0 in Ok (DLLT hw t r1)
              | 2 => let* (en, r0) := rd_u32 r in Ok (DEN en r0)
              | 3 => let* (hw, r0) := rd_u16 r in Ok (DLL hw r0)
              | 4 => if (length r =? 16)%nat then Ok (DUUID r) else Err
              | _ => Ok (DOpaque typ r)
              end%N = Ok (DOpaque typ r)).
  { destruct typ as [|[[[|[]|]|[[]|[]|]|]|[[|[]|]|[]|]|]]; try reflexivity; congruence. }
  rewrite D. intros [= <-]. cbn [dsize]. lia.
Qed.

Lemma dec_ntpsub_size c d s : dec_ntpsub c d = Ok s -> nsize s <= 260 + 256 * length d.
Proof.
  unfold dec_ntpsub. intros H.
  destruct (N.eq_dec c 1) as [->|N1].
  { destruct (rd_n 16 d) as [[a r]| | |] eqn:E; cbn [bind] in H; try discriminate.
    destruct (fin_empty r); cbn [bind] in H; try discriminate. injection H as <-.
    apply rd_n_len in E. destruct E as (E1 & E2 & _). unfold nsize. lia. }
  destruct (N.eq_dec c 2) as [->|N2].
  { destruct (rd_n 16 d) as [[a r]| | |] eqn:E; cbn [bind] in H; try discriminate.
    destruct (fin_empty r); cbn [bind] in H; try discriminate. injection H as <-.
    apply rd_n_len in E. destruct E as (E1 & E2 & _). unfold nsize. lia. }
  destruct (N.eq_dec c 3) as [->|N3].
  { destruct (dec_labels d) as [l| | |] eqn:E; cbn [bind] in H; try discriminate. injection H as <-.
    unfold nsize. pose proof (labels_lsize _ _ E). lia. }
  assert (D : match c with
              | 1 => let* (a, r) := rd_n 16 d in let* _ := fin_empty r in Ok (NSrv a)
              | 2 => let* (a, r) := rd_n 16 d in let* _ := fin_empty r in Ok (NMC a)
              | 3 => let* l := dec_labels d in Ok (NFQDN l)
              | _ => Ok (NGen c d)
              end%N = Ok (NGen c d)).
  { destruct c as [|[[|[]|]|[|[]|]|]]; try reflexivity; congruence. }
  rewrite D in H. injection H as <-. unfold nsize. lia.
Qed.

(** every decoded option, at any nesting depth, retains at most 260 + 256 |value| octets *)
Theorem dec_opt_size : forall f code data o, dec_opt f code data = Ok o -> osize o <= 260 + 256 * length data.
Proof.
  induction f as [|f IH]; intros code data o H; [discriminate|]. cbn [dec_opt] in H.
  assert (OPTS : forall r os, dec_tlvs (dec_opt f) r = Ok os -> osizes os <= 256 * length r).
  { intros r os Hr. unfold dec_tlvs in Hr. unfold osizes.
    eapply tlv_loop_sizes; [|exact Hr]. intros c d v _ _ Hv. exact (IH c d v Hv). }
  destruct (classify code) eqn:K.
  all: try (peel H; injection H as <-; lens; cbn [osize dsize]; cbn [length] in *; lia).
  all: try (peel H; injection H as <-;
            match goal with E : dec_tlvs _ _ = Ok ?os |- _ =>
              pose proof (OPTS _ _ E) as SO;
              destruct (osize_nested os) as (T1 & T2 & T3 & T4 & T5 & T6 & T7 & T8);
              lens; rewrite ?T1, ?T2, ?T3, ?T6, ?T7, ?T8;
              repeat match goal with |- context [match ?pre with Some _ => _ | None => _ end] => destruct pre as [[? ?]|] end;
              cbn [length] in *; lia
            end).
  - (* client id *)
    peel H. injection H as <-. match goal with E : dec_duid _ = Ok _ |- _ => pose proof (dec_duid_size _ _ E) end. cbn [osize]. lia.
  - peel H. injection H as <-. match goal with E : dec_duid _ = Ok _ |- _ => pose proof (dec_duid_size _ _ E) end. cbn [osize]. lia.
  - (* ORO *)
    peel H. injection H as <-.
    match goal with E : many_u16 _ = Ok ?cs |- _ => pose proof (many_u16_length _ _ E); pose proof (dedup_add_length cs []) end.
    cbn [osize length] in *. lia.
  - (* relay message *)
    destruct (dec_msg_with _ data) as [m| | |] eqn:E; cbn [bind] in H; try discriminate.
    injection H as <-. unfold dec_msg_with in E.
    peel E; injection E as <-;
      match goal with E' : dec_tlvs _ _ = Ok ?os |- _ =>
        pose proof (OPTS _ _ E') as SO;
        destruct (osize_nested os) as (T1 & T2 & T3 & T4 & T5 & T6 & T7 & T8);
        lens; rewrite ?T4, ?T5; cbn [length] in *; lia
      end.
  - (* user class *)
    peel H. injection H as <-.
    match goal with E : many_len16 _ _ = Ok _ |- _ => pose proof (many_len16_length _ _ _ E) end.
    cbn [osize]. unfold items_size. lia.
  - (* vendor class *)
    peel H. injection H as <-.
    match goal with E : many_len16 _ _ = Ok _ |- _ => pose proof (many_len16_length _ _ _ E) end. lens.
    cbn [osize]. unfold items_size. lia.
  - (* vendor options *)
    peel H. injection H as <-. lens.
    assert (HP : forall c d (v : N * bytes), u16 c -> short d -> Ok (c, d) = Ok v -> 4 + length (snd v) <= 260 + 256 * length d)
      by (intros c d v _ _ [= <-]; cbn [snd]; lia).
    match goal with E : dec_tlvs _ _ = Ok ?subs |- _ => unfold dec_tlvs in E;
      pose proof (tlv_loop_sizes _ (fun s => 4 + length (snd s)) HP _ _ _ E) end.
    cbn [osize]. lia.
  - (* DNS *)
    peel H. injection H as <-.
    match goal with E : many_ip16 _ _ = Ok _ |- _ => pose proof (many_ip16_concat _ _ _ E) end. cbn [osize]. lia.
  - (* domain list *)
    peel H. injection H as <-.
    match goal with E : dec_labels _ = Ok _ |- _ => pose proof (labels_lsize _ _ E) end. cbn [osize]. lia.
  - (* IA prefix *)
    peel H. injection H as <-.
    match goal with E : dec_tlvs _ _ = Ok ?os |- _ =>
      pose proof (OPTS _ _ E) as SO;
      destruct (osize_nested os) as (T1 & T2 & T3 & T4 & T5 & T6 & T7 & T8);
      lens; rewrite T7 end.
    match goal with |- context [if ?c then None else _] => destruct c end; cbn [length] in *; lia.
  - (* FQDN *)
    peel H. injection H as <-.
    match goal with E : dec_labels _ = Ok _ |- _ => pose proof (labels_lsize _ _ E) end. lens. cbn [osize]. lia.
  - (* NTP *)
    peel H. injection H as <-.
    assert (HP : forall c d v, u16 c -> short d -> dec_ntpsub c d = Ok v -> nsize v <= 260 + 256 * length d)
      by (intros c d v _ _ Hv; exact (dec_ntpsub_size c d v Hv)).
    match goal with E : dec_tlvs _ _ = Ok ?subs |- _ => unfold dec_tlvs in E;
      pose proof (tlv_loop_sizes _ nsize HP _ _ _ E) end.
    cbn [osize]. lia.
  - (* boot parameters *)
    peel H. injection H as <-.
    match goal with E : many_len16 _ _ = Ok _ |- _ => pose proof (many_len16_length _ _ _ E) end.
    cbn [osize]. unfold items_size. lia.
  - (* architectures *)
    peel H. injection H as <-.
    match goal with E : many_u16 _ = Ok ?cs |- _ => pose proof (many_u16_length _ _ E) end.
    cbn [osize length] in *. lia.
  - (* DHCPv4 message *)
    peel H. injection H as <-.
    match goal with E : dec4 _ = Ok _ |- _ => pose proof (dec4_size _ _ E) end. cbn [osize]. lia.
  - (* DHCP4o6 *)
    peel H. injection H as <-.
    match goal with E : many_ip16 _ _ = Ok _ |- _ => pose proof (many_ip16_concat _ _ _ E) end. cbn [osize]. lia.
Qed.

(** a whole message: at most 256 octets retained per input octet *)
Theorem dec_msg_size b m : dec_msg b = Ok m -> msg_size m <= 256 * length b.
Proof.
  unfold dec_msg, dec_msg_with, dec_opts. intros H.
  assert (OPTS : forall r os, dec_tlvs (dec_opt (Datatypes.S (length b))) r = Ok os -> osizes os <= 256 * length r).
  { intros r os Hr. unfold dec_tlvs in Hr. unfold osizes.
    eapply tlv_loop_sizes; [|exact Hr]. intros c d v _ _ Hv. exact (dec_opt_size _ c d v Hv). }
  peel H; injection H as <-; cbn [msg_size];
    match goal with E : dec_tlvs _ _ = Ok ?os |- _ => pose proof (OPTS _ _ E) end; lens; cbn [length] in *; lia.
Qed.
