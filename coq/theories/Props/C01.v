(** C01 — DHCPv4 encode->decode preserves every header field and option value. *)
From DV Require Import Base.Bytes V4.Model V4.OptProofs V4.Proofs V4.RoundTrip V4.Canon.

(** For every packet of the encodable domain [wf4] (any opcode, hops, xid,
    secs, flags; hardware type <= 255; hardware address 0..16 octets; addresses
    nil, 4-octet or IPv4-mapped; server name <= 63 and boot file <= 127 octets
    without NUL; any set of option codes 1..254 with values of ANY length —
    no 4096 bound): encoding succeeds and decoding the result yields the same
    header fields (addresses in their 4-octet wire form, nil = 0.0.0.0) and,
    under every option code, the same value byte for byte (present stays
    present, absent stays absent; empty values and values longer than 255
    octets included). *)
Theorem C01_roundtrip : forall p : pkt4, wf4 p ->
  exists b p',
    enc4 p = Ok b /\ dec4 b = Ok p' /\
    p_op p' = p_op p /\ p_hwtype p' = p_hwtype p /\ p_hops p' = p_hops p /\ p_xid p' = p_xid p /\
    p_secs p' = p_secs p /\ p_flags p' = p_flags p /\
    p_ciaddr p' = ip_wire (p_ciaddr p) /\ p_yiaddr p' = ip_wire (p_yiaddr p) /\
    p_siaddr p' = ip_wire (p_siaddr p) /\ p_giaddr p' = ip_wire (p_giaddr p) /\
    p_chaddr p' = p_chaddr p /\ p_sname p' = p_sname p /\ p_file p' = p_file p /\
    forall c, lookup c (p_opts p') = lookup c (p_opts p).
Proof. exact roundtrip4_full. Qed.
Print Assumptions C01_roundtrip.

(** RFC 3396: a value longer than 255 octets travels as consecutive instances
    of at most 255 octets that concatenate to it. *)
Theorem C01_long_values_split : forall (c : byte) (v : bytes), v <> [] ->
  exists chs, marshal_opt c v = flat_map (fun ch => c :: n2b (N.of_nat (length ch)) :: ch) chs /\
              concat chs = v /\ Forall (fun ch => 1 <= length ch <= 255) chs.
Proof. exact marshal_opt_shape. Qed.
Print Assumptions C01_long_values_split.

(** Non-vacuity: a packet with a 600-octet option, a zero-length option and a
    16-octet hardware address is in the domain. *)
Example C01_example_domain :
  wf4 (mkPkt4 1 1 0 [x01; x02; x03; x04] 7 32768 None (Some [x0a; x00; x00; x01]) None None
              (repeat xaa 16) [x61] [x62] [(n2b 53, []); (n2b 43, repeat x55 600)]).
Proof.
  constructor; cbn [p_op p_hwtype p_hops p_xid p_secs p_flags p_ciaddr p_yiaddr p_siaddr p_giaddr p_chaddr p_sname p_file p_opts].
  - reflexivity.
  - reflexivity.
  - reflexivity.
  - reflexivity.
  - reflexivity.
  - reflexivity.
  - discriminate.
  - discriminate.
  - discriminate.
  - discriminate.
  - rewrite repeat_length. lia.
  - split; [cbn; lia | intros [K|[]]; discriminate].
  - split; [cbn; lia | intros [K|[]]; discriminate].
  - repeat constructor; cbn; intuition discriminate.
  - repeat constructor; discriminate.
Qed.
