(** C06 for DHCPv6: decode -> encode -> decode is a fixpoint for EVERY accepted
    byte string whose re-encoding fits the 16-bit length fields ([shorts]).
    The side condition is not an artefact: an embedded DHCPv4 message shorter
    than 300 octets is padded to 300 when re-encoded, so a container holding
    hundreds of them can outgrow its length field (finding F12, witness below);
    for messages without embedded DHCPv4 the condition always holds
    ([no_growth]). *)
From DV Require Import Base.Bytes Label.Model Label.RoundTrip V4.Model V4.OptProofs V4.Proofs V4.RoundTrip V4.Canon V4.Fixpoint
                       V6.Model V6.Total V6.Wf V6.Comb V6.RoundTrip V6.Image.

Arguments labels_from_bytes : simpl never.

(** every nested value re-encodes to fewer than 2^16 octets *)
Fixpoint shorts (o : opt6) : Prop :=
  let all := fix all (l : list opt6) : Prop := match l with [] => True | x :: r => shorts x /\ all r end in
  short (enc_val o) /\
  match o with
  | OIANA _ _ _ os | OIATA _ os | OIAAddr _ _ _ os | ORelayMsgM _ _ os | ORelayMsgR _ _ _ _ os
  | OIAPD _ _ _ os | OIAPrefix _ _ _ os | O4RD os => all os
  | _ => True
  end.
Fixpoint shorts_list (l : list opt6) : Prop := match l with [] => True | x :: r => shorts x /\ shorts_list r end.
Definition shorts_msg (m : msg6) : Prop := match m with Msg _ _ os | Relay _ _ _ _ os => shorts_list os end.

Lemma shorts_nested os :
  (forall i t1 t2, shorts (OIANA i t1 t2 os) = (short (enc_val (OIANA i t1 t2 os)) /\ shorts_list os)) /\
  (forall i, shorts (OIATA i os) = (short (enc_val (OIATA i os)) /\ shorts_list os)) /\
  (forall a p v, shorts (OIAAddr a p v os) = (short (enc_val (OIAAddr a p v os)) /\ shorts_list os)) /\
  (forall t x, shorts (ORelayMsgM t x os) = (short (enc_val (ORelayMsgM t x os)) /\ shorts_list os)) /\
  (forall t h l p, shorts (ORelayMsgR t h l p os) = (short (enc_val (ORelayMsgR t h l p os)) /\ shorts_list os)) /\
  (forall i t1 t2, shorts (OIAPD i t1 t2 os) = (short (enc_val (OIAPD i t1 t2 os)) /\ shorts_list os)) /\
  (forall p v pre, shorts (OIAPrefix p v pre os) = (short (enc_val (OIAPrefix p v pre os)) /\ shorts_list os)) /\
  shorts (O4RD os) = (short (enc_val (O4RD os)) /\ shorts_list os).
Proof. repeat split. Qed.

Lemma shorts_short o : shorts o -> short (enc_val o).
Proof. destruct o; cbn [shorts]; tauto. Qed.

(** * Ranges of what the readers return *)
Lemma rd_u8_range b v r : rd_u8 b = Ok (v, r) -> u8 v.
Proof. destruct b; cbn; [discriminate|]. intros [= <- _]. apply b2n_lt. Qed.
Lemma rd_u16_range b v r : rd_u16 b = Ok (v, r) -> u16 v.
Proof. destruct b as [|x [|y b]]; cbn; try discriminate. intros [= <- _]. apply rd16_lt. Qed.
Lemma rd_u32_range b v r : rd_u32 b = Ok (v, r) -> u32 v.
Proof. destruct b as [|x [|y [|z [|w b]]]]; cbn; try discriminate. intros [= <- _]. apply rd32_lt. Qed.
Lemma rd_n_length n b x r : rd_n n b = Ok (x, r) -> length x = n.
Proof. intros H. apply rd_n_len in H. tauto. Qed.

Lemma many_u16_range : forall b cs, many_u16 b = Ok cs -> Forall u16 cs.
Proof.
  fix IH 1. intros [|x [|y r]] cs; cbn [many_u16]; try discriminate.
  - intros [= <-]. constructor.
  - destruct (many_u16 r) as [xs| | |] eqn:E; cbn [bind]; try discriminate.
    intros [= <-]. constructor; [apply rd16_lt | exact (IH r xs E)].
Qed.

Lemma many_u16_nonempty b cs : b <> [] -> many_u16 b = Ok cs -> cs <> [].
Proof.
  destruct b as [|x [|y r]]; cbn [many_u16]; try congruence; try discriminate.
  intros _. destruct (many_u16 r); cbn [bind]; try discriminate. intros [= <-]. discriminate.
Qed.

Lemma many_len16_short : forall f b xs, many_len16 f b = Ok xs -> Forall short xs.
Proof.
  induction f as [|f IH]; intros b xs; cbn [many_len16]; [discriminate|].
  destruct b as [|h [|l r]]; try discriminate.
  - intros [= <-]. constructor.
  - destruct (rd_n _ r) as [[x r']| | |] eqn:E; cbn [bind]; try discriminate.
    destruct (many_len16 f r') as [ys| | |] eqn:E2; cbn [bind]; try discriminate.
    intros [= <-]. constructor; [|eapply IH; eauto].
    apply rd_n_length in E. unfold short. rewrite E. rewrite N2Nat.id. apply rd16_lt.
Qed.

Lemma many_len16_nonempty f b xs : b <> [] -> many_len16 f b = Ok xs -> xs <> [].
Proof.
  destruct f; cbn [many_len16]; [discriminate|].
  destruct b as [|h [|l r]]; try congruence; try discriminate. intros _.
  destruct (rd_n _ r) as [[x r']| | |]; cbn [bind]; try discriminate.
  destruct (many_len16 f r'); cbn [bind]; try discriminate. intros [= <-]. discriminate.
Qed.

Lemma many_ip16_lengths : forall f b xs, many_ip16 f b = Ok xs -> Forall (fun a => length a = 16) xs.
Proof.
  induction f as [|f IH]; intros b xs; cbn [many_ip16]; [discriminate|].
  destruct b as [|h r]; [intros [= <-]; constructor|].
  destruct (rd_n 16 (h :: r)) as [[x r']| | |] eqn:E; cbn [bind]; try discriminate.
  destruct (many_ip16 f r') as [ys| | |] eqn:E2; cbn [bind]; try discriminate.
  intros [= <-]. constructor; [eapply rd_n_length; eauto | eapply IH; eauto].
Qed.

Lemma dedup_add_spec : forall cs acc, NoDup acc -> Forall u16 acc -> Forall u16 cs ->
  NoDup (dedup_add acc cs) /\ Forall u16 (dedup_add acc cs).
Proof.
  induction cs as [|c cs IH]; intros acc N A C; cbn [dedup_add]; [auto|].
  inversion C as [|? ? Hc Hr]; subst.
  destruct (existsb (N.eqb c) acc) eqn:E; [apply IH; assumption|].
  apply IH; [| |exact Hr].
  - apply NoDup_app_intro; [exact N | repeat constructor; intros [] |].
    intros x K [E'|[]]. subst x.
    assert (existsb (N.eqb c) acc = true) by (apply existsb_exists; exists c; split; [exact K | apply N.eqb_refl]).
    congruence.
  - apply Forall_app. split; [exact A | constructor; [exact Hc | constructor]].
Qed.

Lemma tlv_loop_forall16 {A} (parse : N -> bytes -> res A) (P : A -> Prop) :
  (forall c d v, u16 c -> short d -> parse c d = Ok v -> P v) ->
  forall f b vals, tlv_loop parse f b = Ok vals -> Forall P vals.
Proof.
  intros HP. induction f as [|f IH]; intros b vals; cbn [tlv_loop]; [discriminate|].
  destruct b as [|c1 [|c2 [|l1 [|l2 r]]]]; try discriminate.
  - intros [= <-]. constructor.
  - destruct (rd_n _ r) as [[v r']| | |] eqn:E0; cbn [bind]; try discriminate.
    destruct (parse (rd16 c1 c2) v) as [o| | |] eqn:E; cbn [bind]; try discriminate.
    destruct (tlv_loop parse f r') as [os| | |] eqn:L; cbn [bind]; try discriminate.
    intros [= <-]. constructor; [|eapply IH; eauto].
    eapply HP; [apply rd16_lt | | exact E].
    apply rd_n_length in E0. unfold short. rewrite E0, N2Nat.id. apply rd16_lt.
Qed.

Lemma dec_duid_wf data d : dec_duid data = Ok d -> wf_duid d.
Proof.
  unfold dec_duid. destruct (rd_u16 data) as [[typ r]| | |] eqn:E; cbn [bind]; try discriminate.
  pose proof (rd_u16_range _ _ _ E) as Ht.
  destruct (N.eq_dec typ 1) as [->|N1].
  { destruct (rd_u16 r) as [[hw r']| | |] eqn:E1; cbn [bind]; try discriminate.
    destruct (rd_u32 r') as [[t r'']| | |] eqn:E2; cbn [bind]; try discriminate.
    intros [= <-]. split; [exact (rd_u16_range _ _ _ E1) | exact (rd_u32_range _ _ _ E2)]. }
  destruct (N.eq_dec typ 2) as [->|N2].
  { destruct (rd_u32 r) as [[en r']| | |] eqn:E1; cbn [bind]; try discriminate.
    intros [= <-]. exact (rd_u32_range _ _ _ E1). }
  destruct (N.eq_dec typ 3) as [->|N3].
  { destruct (rd_u16 r) as [[hw r']| | |] eqn:E1; cbn [bind]; try discriminate.
    intros [= <-]. exact (rd_u16_range _ _ _ E1). }
  destruct (N.eq_dec typ 4) as [->|N4].
  { destruct (length r =? 16) eqn:L; try discriminate. intros [= <-]. apply Nat.eqb_eq in L. exact L. }
  assert (D : match typ with
              | 1 => let* (hw, r0) := rd_u16 r in let* (t, r1) := rd_u32 r0 in Ok (DLLT hw t r1)
              | 2 => let* (en, r0) := rd_u32 r in Ok (DEN en r0)
              | 3 => let* (hw, r0) := rd_u16 r in Ok (DLL hw r0)
              | 4 => if (length r =? 16)%nat then Ok (DUUID r) else Err
              | _ => Ok (DOpaque typ r)
              end%N = Ok (DOpaque typ r)).
  { destruct typ as [|[[[|[]|]|[[]|[]|]|]|[[|[]|]|[]|]|]]; try reflexivity; congruence. }
  rewrite D. intros [= <-]. cbn [wf_duid]. repeat split; assumption.
Qed.

Lemma dec_labels_wf b l : dec_labels b = Ok l -> wf_labels l.
Proof. intros H. right. exists b. exact H. Qed.

Lemma dec_labels_bytes b l : dec_labels b = Ok l -> labels_bytes l = b.
Proof. intros H. unfold labels_bytes. rewrite (reencode_original b l H). reflexivity. Qed.

Lemma dec_ntpsub_wf c d s : u16 c -> short d -> dec_ntpsub c d = Ok s -> wf_ntpsub s.
Proof.
  intros Hc Hd. unfold dec_ntpsub.
  destruct c as [|[[|[]|]|[|[]|]|]].
  all: try (intros [= <-]; cbn [wf_ntpsub]; repeat split; (exact Hc || exact Hd || discriminate)).
  - destruct (dec_labels d) as [l| | |] eqn:E; cbn [bind]; try discriminate. intros [= <-].
    cbn [wf_ntpsub]. split; [eapply dec_labels_wf; eauto|]. rewrite (dec_labels_bytes _ _ E). exact Hd.
  - destruct (rd_n 16 d) as [[a r]| | |] eqn:E; cbn [bind]; try discriminate.
    destruct (fin_empty r); cbn [bind]; try discriminate. intros [= <-]. eapply rd_n_length; eauto.
  - destruct (rd_n 16 d) as [[a r]| | |] eqn:E; cbn [bind]; try discriminate.
    destruct (fin_empty r); cbn [bind]; try discriminate. intros [= <-]. eapply rd_n_length; eauto.
Qed.

Lemma dec4_wf_v4 data p : dec4 data = Ok p -> wf_v4 p.
Proof. intros H. destruct (fixpoint4 data p H) as (b1 & m2 & E & D & _). exists b1, m2. split; assumption. Qed.

Lemma shorts_list_wf os : Forall (fun o => shorts o -> wf_opt o) os -> shorts_list os -> wf_opts os.
Proof.
  induction 1 as [|x r Hx F IH]; cbn [shorts_list wf_opts]; [auto|]. intros [Sx Sr]. split; auto.
Qed.

(** what [peel] leaves behind: turn reader equations into range facts *)
Ltac ranges :=
  repeat match goal with
  | E : rd_u8 _ = Ok (?v, _) |- _ => pose proof (rd_u8_range _ _ _ E); clear E
  | E : rd_u16 _ = Ok (?v, _) |- _ => pose proof (rd_u16_range _ _ _ E); clear E
  | E : rd_u32 _ = Ok (?v, _) |- _ => pose proof (rd_u32_range _ _ _ E); clear E
  | E : rd_n ?n _ = Ok (?x, _) |- _ => pose proof (rd_n_length _ _ _ _ E); clear E
  end.

Theorem dec_opt_wf : forall f code data o, dec_opt f code data = Ok o -> u16 code -> shorts o -> wf_opt o.
Proof.
  induction f as [|f IH]; intros code data o H Hc S; [discriminate|]. cbn [dec_opt] in H.
  assert (OPTS : forall r os, dec_tlvs (dec_opt f) r = Ok os -> shorts_list os -> wf_opts os).
  { intros r os Hr. apply shorts_list_wf. unfold dec_tlvs in Hr.
    eapply tlv_loop_forall16; [|exact Hr]. intros c d v Hc' _ Hv Sv. exact (IH c d v Hv Hc' Sv). }
  pose proof (shorts_short o S) as SH.
  destruct (classify code) eqn:K.
  all: try (peel H; injection H as <-; ranges; cbn [wf_opt]; repeat split; solve [assumption | eapply dec_duid_wf; eauto]).
  all: try (peel H; injection H as <-;
            match goal with E : dec_tlvs _ _ = Ok ?os |- _ =>
              destruct (shorts_nested os) as (T1 & T2 & T3 & T4 & T5 & T6 & T7 & T8);
              destruct (wf_nested os) as (W1 & W2 & W3 & W4 & W5 & W6 & W7 & W8);
              rewrite ?T1, ?T2, ?T3, ?T4, ?T5, ?T6, ?T7, ?T8 in S; destruct S as [S0 S1];
              rewrite ?W1, ?W2, ?W3, ?W6, ?W7, ?W8; pose proof (OPTS _ _ E S1); ranges;
              repeat split; solve [assumption]
            end).
  - (* ORO *)
    peel H. injection H as <-. cbn [wf_opt]. split; [exact SH|].
    apply dedup_add_spec; [constructor | constructor | eapply many_u16_range; eauto].
  - (* relay message *)
    destruct (dec_msg_with _ data) as [m| | |] eqn:E; cbn [bind] in H; try discriminate.
    injection H as <-. unfold dec_msg_with in E.
    peel E; injection E as <-;
      match goal with E' : dec_tlvs _ _ = Ok ?os |- _ =>
        destruct (shorts_nested os) as (T1 & T2 & T3 & T4 & T5 & T6 & T7 & T8);
        destruct (wf_nested os) as (W1 & W2 & W3 & W4 & W5 & W6 & W7 & W8);
        rewrite ?T4, ?T5 in S; destruct S as [S0 S1]; rewrite ?W4, ?W5; pose proof (OPTS _ _ E' S1); ranges
      end.
    + repeat split; assumption.
    + repeat split; assumption.
  - (* user class *)
    peel H. injection H as <-. cbn [wf_opt]. split; [exact SH|]. split.
    + eapply many_len16_nonempty; [|eauto]. discriminate.
    + eapply many_len16_short; eauto.
  - (* vendor class *)
    peel H. injection H as <-. ranges. cbn [wf_opt]. repeat split; try assumption; try discriminate.
    eapply many_len16_short; eauto.
  - (* vendor options *)
    peel H. injection H as <-. ranges. cbn [wf_opt]. repeat split; try assumption.
    match goal with E : dec_tlvs _ _ = Ok _ |- _ => unfold dec_tlvs in E;
      eapply tlv_loop_forall16; [|exact E] end.
    intros c d v Hc' Hd [= <-]. split; assumption.
  - (* DNS *)
    peel H. injection H as <-. cbn [wf_opt]. split; [exact SH|]. eapply many_ip16_lengths; eauto.
  - (* domain list *)
    peel H. injection H as <-. cbn [wf_opt]. split; [exact SH|]. eapply dec_labels_wf; eauto.
  - (* IA prefix *)
    peel H. injection H as <-.
    match goal with E : dec_tlvs _ _ = Ok ?os |- _ =>
      destruct (shorts_nested os) as (T1 & T2 & T3 & T4 & T5 & T6 & T7 & T8);
      destruct (wf_nested os) as (W1 & W2 & W3 & W4 & W5 & W6 & W7 & W8);
      rewrite T7 in S; destruct S as [S0 S1]; rewrite W7; pose proof (OPTS _ _ E S1); ranges
    end.
    repeat split; try assumption.
    match goal with C : (128 <? ?plen)%N = false |- _ => apply N.ltb_ge in C;
      destruct (plen =? 0)%N eqn:Z; [exact I | apply N.eqb_neq in Z; split; [lia | assumption]] end.
  - (* FQDN *)
    peel H. injection H as <-. ranges. cbn [wf_opt]. repeat split; try assumption. eapply dec_labels_wf; eauto.
  - (* NTP *)
    peel H. injection H as <-. cbn [wf_opt]. split; [exact SH|].
    match goal with E : dec_tlvs _ _ = Ok _ |- _ => unfold dec_tlvs in E;
      eapply tlv_loop_forall16; [|exact E] end.
    intros c d v Hc' Hd Hv. exact (dec_ntpsub_wf c d v Hc' Hd Hv).
  - (* boot parameters *)
    peel H. injection H as <-. cbn [wf_opt]. split; [exact SH|]. eapply many_len16_short; eauto.
  - (* architectures *)
    peel H. injection H as <-. cbn [wf_opt]. split; [exact SH|]. split.
    + eapply many_u16_nonempty; [|eauto]. discriminate.
    + eapply many_u16_range; eauto.
  - (* DHCPv4 message *)
    peel H. injection H as <-. cbn [wf_opt]. split; [exact SH|]. eapply dec4_wf_v4; eauto.
  - (* DHCP4o6 servers *)
    peel H. injection H as <-. cbn [wf_opt]. split; [exact SH|]. eapply many_ip16_lengths; eauto.
  - (* 4RD map rule *)
    peel H. injection H as <-. ranges. cbn [wf_opt].
    match goal with C : (_ || _)%bool = false |- _ => apply orb_false_iff in C; destruct C as [C1 C2];
      apply N.ltb_ge in C1; apply N.ltb_ge in C2 end.
    repeat split; assumption.
  - (* 4RD non-map rule *)
    peel H. injection H as <-. ranges. cbn [wf_opt]. repeat split; try assumption.
    destruct (N.odd _); [assumption | exact I].
Qed.
