(** C07: the encoding is at least 300 octets, has the canonical shape, and
    does not depend on the order in which options were inserted. *)
From DV Require Import Base.Bytes V4.Model V4.OptProofs V4.Proofs V4.RoundTrip.
From Coq Require Import Permutation Sorted.

Definition blt (a b : byte) : Prop := (b2n a < b2n b)%N.

Lemma insert_sorted c l : StronglySorted blt l -> ~ In c l -> StronglySorted blt (insert_code c l).
Proof.
  induction l as [|x l IH]; intros S H; cbn [insert_code].
  - repeat constructor.
  - inversion S as [|? ? Sl Fx]; subst.
    destruct (b2n c <=? b2n x)%N eqn:E.
    + apply N.leb_le in E.
      assert (Hlt : blt c x).
      { unfold blt. assert (b2n c <> b2n x) by (intros K; apply b2n_inj in K; subst; apply H; left; reflexivity). lia. }
      constructor; [exact S|]. constructor; [exact Hlt|].
      eapply Forall_impl; [|exact Fx]. intros y Hy. unfold blt in *. lia.
    + apply N.leb_gt in E. constructor.
      * apply IH; [exact Sl | intros K; apply H; right; exact K].
      * assert (P : Permutation (insert_code c l) (c :: l)) by apply insert_code_perm.
        apply Forall_forall. intros y Hy. apply (Permutation_in _ P) in Hy.
        destruct Hy as [<-|Hy]; [exact E|]. rewrite Forall_forall in Fx. apply Fx. exact Hy.
Qed.

Lemma sort_codes_sorted l : NoDup l -> StronglySorted blt (sort_codes l).
Proof.
  induction 1 as [|c l Hc Hl IH]; cbn [sort_codes]; [constructor|].
  apply insert_sorted; [exact IH|]. intros K. apply Hc.
  apply (Permutation_in _ (sort_codes_perm l)). exact K.
Qed.

Lemma sorted_unique l1 : forall l2, StronglySorted blt l1 -> StronglySorted blt l2 ->
  (forall x, In x l1 <-> In x l2) -> l1 = l2.
Proof.
  induction l1 as [|a l1 IH]; intros l2 S1 S2 H.
  - destruct l2 as [|b l2]; [reflexivity|]. exfalso. apply (H b). left. reflexivity.
  - destruct l2 as [|b l2]. { exfalso. apply (H a). left. reflexivity. }
    inversion S1 as [|? ? S1' F1]; inversion S2 as [|? ? S2' F2]; subst.
    rewrite Forall_forall in F1, F2.
    assert (a = b).
    { destruct (proj1 (H a) (or_introl eq_refl)) as [E|Ha]; [auto|].
      destruct (proj2 (H b) (or_introl eq_refl)) as [E|Hb]; [auto|].
      specialize (F1 _ Hb). specialize (F2 _ Ha). unfold blt in *. lia. }
    subst b. f_equal. apply IH; auto.
    intros x. split; intros Hx.
    + destruct (proj1 (H x) (or_intror Hx)) as [E|K]; [|exact K].
      subst x. specialize (F1 _ Hx). unfold blt in F1. lia.
    + destruct (proj2 (H x) (or_intror Hx)) as [E|K]; [|exact K].
      subst x. specialize (F2 _ Hx). unfold blt in F2. lia.
Qed.

Lemma existsb_ext_in (f : byte -> bool) l1 l2 :
  (forall x, In x l1 <-> In x l2) -> existsb f l1 = existsb f l2.
Proof.
  intros H. destruct (existsb f l1) eqn:E1; destruct (existsb f l2) eqn:E2; try reflexivity.
  - apply existsb_exists in E1. destruct E1 as (x & Hx & Fx).
    assert (existsb f l2 = true) by (apply existsb_exists; exists x; split; [apply H; exact Hx | exact Fx]). congruence.
  - apply existsb_exists in E2. destruct E2 as (x & Hx & Fx).
    assert (existsb f l1 = true) by (apply existsb_exists; exists x; split; [apply H; exact Hx | exact Fx]). congruence.
Qed.

Lemma sorted_keys_ext m1 m2 : NoDup (map fst m1) -> NoDup (map fst m2) ->
  (forall c, In c (map fst m1) <-> In c (map fst m2)) -> sorted_keys m1 = sorted_keys m2.
Proof.
  intros N1 N2 H. unfold sorted_keys.
  rewrite (existsb_ext_in (beqb opt_agent_info) _ _ H), (existsb_ext_in (beqb opt_end) _ _ H).
  f_equal. apply sorted_unique.
  - apply sort_codes_sorted. apply NoDup_filter. exact N1.
  - apply sort_codes_sorted. apply NoDup_filter. exact N2.
  - intros x. split; intros Hx.
    + apply (Permutation_in _ (sort_codes_perm _)) in Hx.
      apply (Permutation_in _ (Permutation_sym (sort_codes_perm _))).
      apply filter_In in Hx. apply filter_In. split; [apply H|]; tauto.
    + apply (Permutation_in _ (sort_codes_perm _)) in Hx.
      apply (Permutation_in _ (Permutation_sym (sort_codes_perm _))).
      apply filter_In in Hx. apply filter_In. split; [apply H|]; tauto.
Qed.

(** packets with equal contents (same value under every code) *)
Definition same_options (m1 m2 : optmap) : Prop := forall c, lookup c m1 = lookup c m2.

Theorem marshal_order_independent m1 m2 :
  NoDup (map fst m1) -> NoDup (map fst m2) -> same_options m1 m2 -> marshal m1 = marshal m2.
Proof.
  intros N1 N2 H. unfold marshal.
  rewrite (sorted_keys_ext m1 m2 N1 N2).
  - apply flat_map_ext. intros c. rewrite (H c). reflexivity.
  - intros c. rewrite <- !lookup_in. rewrite (H c). tauto.
Qed.

Theorem enc4_order_independent p1 p2 :
  NoDup (map fst (p_opts p1)) -> NoDup (map fst (p_opts p2)) -> same_options (p_opts p1) (p_opts p2) ->
  p_op p1 = p_op p2 -> p_hwtype p1 = p_hwtype p2 -> p_hops p1 = p_hops p2 -> p_xid p1 = p_xid p2 ->
  p_secs p1 = p_secs p2 -> p_flags p1 = p_flags p2 ->
  p_ciaddr p1 = p_ciaddr p2 -> p_yiaddr p1 = p_yiaddr p2 -> p_siaddr p1 = p_siaddr p2 -> p_giaddr p1 = p_giaddr p2 ->
  p_chaddr p1 = p_chaddr p2 -> p_sname p1 = p_sname p2 -> p_file p1 = p_file p2 ->
  enc4 p1 = enc4 p2.
Proof.
  intros N1 N2 H. intros. unfold enc4.
  rewrite (marshal_order_independent _ _ N1 N2 H).
  repeat match goal with E : _ p1 = _ p2 |- _ => rewrite E; clear E end. reflexivity.
Qed.

(** updating and deleting options are the Go map operations: they keep keys
    unique, so any two construction programs that end with the same contents
    encode identically. *)
Lemma update_keys m : forall c v x, In x (map fst (update_opt m c v)) <-> x = c \/ In x (map fst m).
Proof.
  induction m as [|[k w] m IH]; intros c v x; cbn [update_opt map fst].
  - cbn. intuition congruence.
  - destruct (beqb k c) eqn:E; cbn [map fst].
    + apply beqb_eq in E. subst k. cbn. intuition congruence.
    + cbn [In]. rewrite IH. intuition congruence.
Qed.

Lemma update_nodup m : forall c v, NoDup (map fst m) -> NoDup (map fst (update_opt m c v)).
Proof.
  induction m as [|[k w] m IH]; intros c v H; cbn [update_opt map fst].
  - repeat constructor. intros [].
  - inversion H as [|? ? Hk Hm]; subst. destruct (beqb k c) eqn:E; cbn [map fst].
    + constructor; assumption.
    + constructor; [|apply IH; exact Hm]. rewrite update_keys. intros [K|K]; [|contradiction].
      apply beqb_neq in E. congruence.
Qed.

Lemma delete_nodup m : forall c, NoDup (map fst m) -> NoDup (map fst (delete_opt m c)).
Proof.
  induction m as [|[k w] m IH]; intros c H; cbn [delete_opt map fst]; [constructor|].
  inversion H as [|? ? Hk Hm]; subst. destruct (beqb k c); [exact Hm|]. cbn [map fst].
  constructor; [|apply IH; exact Hm].
  intros K. apply Hk. clear -K. induction m as [|[k' w'] m IH]; cbn in *; [contradiction|].
  destruct (beqb k' c); cbn in *; tauto.
Qed.

Inductive opt_op := OpUpdate (c : byte) (v : bytes) | OpDel (c : byte).
Definition apply_op (m : optmap) (o : opt_op) : optmap :=
  match o with OpUpdate c v => update_opt m c v | OpDel c => delete_opt m c end.

Lemma program_nodup ops : forall m, NoDup (map fst m) -> NoDup (map fst (fold_left apply_op ops m)).
Proof.
  induction ops as [|o ops IH]; intros m H; [exact H|]. cbn [fold_left]. apply IH.
  destruct o; [apply update_nodup | apply delete_nodup]; exact H.
Qed.

Theorem programs_same_contents_same_bytes ops1 ops2 :
  same_options (fold_left apply_op ops1 []) (fold_left apply_op ops2 []) ->
  marshal (fold_left apply_op ops1 []) = marshal (fold_left apply_op ops2 []).
Proof.
  intros H. apply marshal_order_independent; [apply program_nodup; constructor.. | exact H].
Qed.

(** * shape of the encoding *)
Theorem enc4_min_length p b : enc4 p = Ok b -> bootp_min_len <= length b.
Proof.
  unfold enc4. destruct (write_ip (p_ciaddr p)); cbn [bind]; try discriminate.
  destruct (write_ip (p_yiaddr p)); cbn [bind]; try discriminate.
  destruct (write_ip (p_siaddr p)); cbn [bind]; try discriminate.
  destruct (write_ip (p_giaddr p)); cbn [bind]; try discriminate.
  intros E. apply Ok_inj in E. rewrite <- E. unfold pad_to. rewrite app_length, zeros_length. lia.
Qed.

(** every instance carries at most 255 value octets; instances of a value
    are adjacent and concatenate to it *)
Theorem marshal_opt_shape c v : v <> [] ->
  exists chs, marshal_opt c v = flat_map (fun ch => c :: n2b (N.of_nat (length ch)) :: ch) chs /\
              concat chs = v /\ Forall (fun ch => 1 <= length ch <= 255) chs.
Proof.
  intros H. exists (chunks (length v) v).
  destruct (chunks_spec (length v) v (le_n _) H) as (C & F & _).
  split; [|split; assumption]. unfold marshal_opt. destruct v; [congruence | reflexivity].
Qed.

(** the options area is: instances in ascending code order with 82 last, one
    End, then only padding *)
Theorem enc4_shape p b : wf4 p -> enc4 p = Ok b ->
  exists hdr k, length hdr = 236 /\
    b = hdr ++ cookie ++ enc_kvs (kvs_of (p_opts p)) ++ [opt_end] ++ zeros k /\
    map fst (kvs_of (p_opts p)) = sorted_keys (p_opts p) /\
    exists plain, sorted_keys (p_opts p) = plain ++ (if existsb (beqb opt_agent_info) (map fst (p_opts p)) then [opt_agent_info] else []) /\
                  StronglySorted blt plain /\ ~ In opt_agent_info plain.
Proof.
  intros W E. destruct (roundtrip4 p W) as (b' & ci & yi & si & gi & Eci & Eyi & Esi & Egi & Eb & _).
  assert (b' = b) by congruence. subst b'. clear Eb.
  destruct W as [Wop Whw Whops Wxid Wsecs Wflags Wci Wyi Wsi Wgi Wch Wsn Wfl Wkeys Wcodes]. unfold enc4 in E.
  rewrite (write_ip_wire _ _ Eci), (write_ip_wire _ _ Eyi), (write_ip_wire _ _ Esi), (write_ip_wire _ _ Egi) in E.
  cbn [bind] in E. apply Ok_inj in E. unfold pad_to in E.
  eexists ([n2b (p_op p); n2b (p_hwtype p); n2b (N.of_nat (length (p_chaddr p))); n2b (p_hops p)]
           ++ copy_into 4 4 (p_xid p) ++ be16 (p_secs p) ++ be16 (p_flags p) ++ ci ++ yi ++ si ++ gi
           ++ copy_into 16 16 (p_chaddr p) ++ copy_into 64 63 (p_sname p) ++ copy_into 128 127 (p_file p)).
  eexists. split; [|split; [|split]].
  - repeat rewrite app_length. rewrite !copy_into_length by lia.
    rewrite (ip_wire_length _ _ Eci), (ip_wire_length _ _ Eyi), (ip_wire_length _ _ Esi), (ip_wire_length _ _ Egi).
    reflexivity.
  - rewrite <- E. rewrite marshal_kvs. rewrite <- !app_assoc. cbn [app]. reflexivity.
  - (* every key is good and present, so kvs_of lists exactly sorted_keys *)
    assert (G : forall c, In c (sorted_keys (p_opts p)) -> good_code c /\ lookup c (p_opts p) <> None).
    { intros c Hc. apply sorted_keys_in in Hc. split.
      - rewrite Forall_forall in Wcodes. apply Wcodes. exact Hc.
      - apply lookup_in. exact Hc. }
    unfold kvs_of. induction (sorted_keys (p_opts p)) as [|c L IH]; [reflexivity|].
    cbn [flat_map]. rewrite map_app, IH by (intros x Hx; apply G; right; exact Hx).
    destruct (G c (or_introl eq_refl)) as [Gc Lc]. unfold kv_of.
    destruct (good_code_beqb c Gc) as [P En]. rewrite P, En. cbn [orb].
    destruct (lookup c (p_opts p)); [reflexivity | congruence].
  - exists (sort_codes (filter (fun k => negb (beqb k opt_agent_info) && negb (beqb k opt_end)) (map fst (p_opts p)))).
    split; [|split].
    + unfold sorted_keys.
      assert (X : existsb (beqb opt_end) (map fst (p_opts p)) = false).
      { destruct (existsb _ _) eqn:X; [|reflexivity]. apply existsb_exists in X.
        destruct X as (x & Hx & Ex). apply beqb_eq in Ex. subst x.
        rewrite Forall_forall in Wcodes. destruct (Wcodes _ Hx) as [_ K]. congruence. }
      rewrite X, app_nil_r. reflexivity.
    + apply sort_codes_sorted. apply NoDup_filter. exact Wkeys.
    + intros K. apply (Permutation_in _ (sort_codes_perm _)) in K. apply filter_In in K.
      destruct K as [_ K]. apply andb_true_iff in K. destruct K as [K _].
      assert (B : beqb opt_agent_info opt_agent_info = true) by (apply beqb_eq; reflexivity).
      rewrite B in K. discriminate.
Qed.

Theorem enc4_rfc_readable : forall p : pkt4, wf4 p ->
  exists b p', enc4 p = Ok b /\ layout4 b p' /\
    p_chaddr p' = p_chaddr p /\ p_sname p' = p_sname p /\ p_file p' = p_file p /\ p_xid p' = p_xid p /\
    forall c, good_code c -> lookup c (p_opts p') = lookup c (p_opts p).
Proof.
  intros p W. destruct (roundtrip4 p W) as (b & ci & yi & si & gi & _ & _ & _ & _ & Eb & Ed).
  exists b, (decoded_of p ci yi si gi). split; [exact Eb|]. split; [apply dec4_exact; exact Ed|].
  repeat split; try reflexivity. intros c Hc. destruct W. apply lookup_decoded; assumption.
Qed.
