#!/bin/bash
# usage: seedprocpar.sh <worktree-prefix> <round-letter> <Cxx>...
# like seedproc.sh, but confirms the seeds 5 at a time (each in its own worktree) and runs the checks with tools/parseed.py
cd "$(dirname "$0")/.."
PFX=$1; R=$2; shift 2
printf "%s\n" "$@" | xargs -P 5 -I{} sh -c "tools/seedconfirm.sh /tmp/$PFX-{} {}-$R 2>&1 | tail -2"
ids=""
for p in "$@"; do
  if [ -d seeded/$p-$R ]; then ids="$ids $p-$R"; git -C /repo worktree remove --force /tmp/$PFX-$p; else echo "NOT CONFIRMED $p-$R (worktree kept)"; fi
done
[ -n "$ids" ] && python3 tools/parseed.py -j 8 $ids 2>&1
